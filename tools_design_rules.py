#!/usr/bin/env python3
"""regenerates DESIGN.md §10.2's rule table (between <!-- RULES-BEGIN --> and <!-- RULES-END -->) from the evidence files of the last run"""
import json, re
rows = []
texts = {}
for i in range(1, 21):
    p = "C%02d" % i
    try:
        c = json.load(open("/verif/evidence/%s.json" % p))["coverage"]
    except Exception:
        continue
    rs = [r for r in sorted(c["per_rule"]) if r != "ENGINE-CANARY"]
    rows.append("| %s | %d | %s |" % (p, c["obligations"], ", ".join("%s (%d)" % (r, c["per_rule"][r]["obligations"]) for r in rs)))
    for r, t in c.get("rules", {}).items():
        texts.setdefault(r, t)
out = ["<!-- RULES-BEGIN -->", "", "| id | obligations on the current tree | rules run by `./check <id>` (obligations per rule) |", "|---|---|---|"] + rows
out += ["| all | | ENGINE-CANARY; thorough tier adds SEEDED and BENIGN |", "", "Rule statements (as printed in the evidence files):", ""]
for r in sorted(texts):
    out.append("* **%s** — %s" % (r, texts[r].replace("\n", " ")))
out += ["", "<!-- RULES-END -->"]
s = open("/verif/DESIGN.md").read()
s = re.sub(r"<!-- RULES-BEGIN -->.*<!-- RULES-END -->", lambda m: "\n".join(out), s, flags=re.S)
open("/verif/DESIGN.md", "w").write(s)
print(len(rows), "checks,", len(texts), "rule statements")
