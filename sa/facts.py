"""Fact loading: runs the mirfacts rustc driver over /repo's current working tree
(fresh cargo target dir every time the sources changed) and loads the JSON.

A content-hash cache skips only the cargo run, never a rule."""
import fcntl
import hashlib
import json
import os
import re
import shutil
import subprocess
import sys
import tempfile
import time

VERIF = os.path.dirname(os.path.dirname(os.path.abspath(__file__)))
REPO = os.environ.get("VERIF_REPO", "/repo")
DRIVER_DIR = os.path.join(VERIF, "mirfacts")
DRIVER = os.path.join(DRIVER_DIR, "target", "release", "mirfacts")
CACHE = os.path.join(VERIF, ".cache")
CRATES = ("msi", "msi_ffi", "cfb")

CONFIGS = {
    # dev profile: overflow checks and debug assertions visible in MIR
    "dev": "-Zmir-opt-level=0 -Awarnings",
    # what a release build keeps
    "rel": "-Zmir-opt-level=0 -Awarnings -C debug-assertions=off -C overflow-checks=off",
}


def _sysroot():
    return subprocess.check_output(["rustc", "+nightly", "--print", "sysroot"], text=True).strip()


def ensure_driver():
    src = os.path.join(DRIVER_DIR, "src", "main.rs")
    if os.path.exists(DRIVER) and os.path.getmtime(DRIVER) >= os.path.getmtime(src):
        return
    env = dict(os.environ, CARGO_NET_OFFLINE="true")
    r = subprocess.run(["cargo", "build", "--release", "--offline"], cwd=DRIVER_DIR, env=env,
                       stdout=subprocess.PIPE, stderr=subprocess.STDOUT, text=True)
    if r.returncode != 0 or not os.path.exists(DRIVER):
        sys.stderr.write(r.stdout)
        raise SystemExit("ENGINE-ERROR: could not build the mirfacts driver")


def source_files(repo=REPO):
    out = []
    for top in ("src", "ffi/src"):
        for dp, dn, fn in os.walk(os.path.join(repo, top)):
            dn.sort()
            for f in sorted(fn):
                out.append(os.path.join(dp, f))
    for f in ("Cargo.toml", "Cargo.lock", "ffi/Cargo.toml", "examples/msiquery.pest", "rustfmt.toml"):
        p = os.path.join(repo, f)
        if os.path.exists(p):
            out.append(p)
    return out


def tree_hash(repo=REPO, config="dev"):
    h = hashlib.sha256()
    h.update(config.encode())
    h.update(CONFIGS[config].encode())
    for p in source_files(repo):
        h.update(os.path.relpath(p, repo).encode())
        with open(p, "rb") as f:
            h.update(hashlib.sha256(f.read()).digest())
    with open(DRIVER, "rb") as f:
        h.update(hashlib.sha256(f.read()).digest())
    return h.hexdigest()[:24]


def extract(repo=REPO, config="dev", extra_crate_dirs=()):
    """Returns directory with <crate>.json for the current working tree."""
    ensure_driver()
    os.makedirs(CACHE, exist_ok=True)
    key = tree_hash(repo, config)
    out = os.path.join(CACHE, "facts-" + key)
    lock = open(os.path.join(CACHE, ".lock"), "w")
    fcntl.flock(lock, fcntl.LOCK_EX)
    try:
        if all(os.path.exists(os.path.join(out, c + ".json")) for c in CRATES):
            try:
                os.utime(out, None)  # most recently used: keeps it clear of the pruning below
            except OSError:
                pass
            return out, True
        tmp_out = tempfile.mkdtemp(prefix="facts-", dir=CACHE)
        target = tempfile.mkdtemp(prefix="verif-target-")
        try:
            env = dict(os.environ)
            env.update({
                "LD_LIBRARY_PATH": _sysroot() + "/lib",
                "RUSTFLAGS": CONFIGS[config],
                "RUSTC_WRAPPER": DRIVER,
                "MIRFACTS_OUT": tmp_out,
                "MIRFACTS_CRATES": ",".join(CRATES),
                "CARGO_TARGET_DIR": target,
                "CARGO_NET_OFFLINE": "true",
            })
            env.pop("RUSTC_WORKSPACE_WRAPPER", None)
            for attempt in range(3):
                r = subprocess.run(["cargo", "+nightly", "check", "--offline", "--workspace", "--lib"],
                                   cwd=repo, env=env, stdout=subprocess.PIPE, stderr=subprocess.STDOUT, text=True)
                if r.returncode == 0 or re.search(r"^error(\[E\d+\])?: ", r.stdout, flags=re.M) and "failed to run `rustc`" not in r.stdout and "could not execute process" not in r.stdout:
                    break  # success, or a genuine compile error of the tree (not worth retrying)
                # spurious toolchain failure under load (rustc could not be spawned, target info probe failed, ...): start over with a clean target dir
                time.sleep(2 + 3 * attempt)
                shutil.rmtree(target, ignore_errors=True)
                os.makedirs(target, exist_ok=True)
                for fn_ in os.listdir(tmp_out):
                    os.remove(os.path.join(tmp_out, fn_))
            if r.returncode != 0:
                sys.stderr.write(r.stdout[-6000:])
                raise SystemExit("ENGINE-ERROR: /repo does not build under the fact extractor")
            for c in CRATES:
                if not os.path.exists(os.path.join(tmp_out, c + ".json")):
                    raise SystemExit("ENGINE-ERROR: extractor produced no facts for crate " + c)
            if os.path.exists(out):
                shutil.rmtree(out)
            os.rename(tmp_out, out)
        finally:
            shutil.rmtree(target, ignore_errors=True)
            shutil.rmtree(tmp_out, ignore_errors=True)
        _prune(keep=out)
        return out, False
    finally:
        fcntl.flock(lock, fcntl.LOCK_UN)
        lock.close()


def _prune(keep, maxn=int(os.environ.get("VERIF_CACHE_MAX", "200"))):
    ds = [os.path.join(CACHE, d) for d in os.listdir(CACHE) if d.startswith("facts-")]
    ds = [d for d in ds if os.path.isdir(d) and d != keep]
    ds.sort(key=os.path.getmtime, reverse=True)
    now = time.time()
    for d in ds[maxn:]:
        # never remove an entry used in the last ten minutes: a concurrent check may be loading it
        if now - os.path.getmtime(d) > 600:
            shutil.rmtree(d, ignore_errors=True)


# --------------------------------------------------------------------------- #


class Fn:
    __slots__ = ("id", "crate", "path", "raw", "blocks", "locals", "kind", "span", "argc",
                 "exported", "vis", "parent", "impl_self", "impl_trait", "impl_preds", "vars",
                 "_preds", "_succ", "closures", "owner")

    def __init__(self, crate, raw):
        self.crate = crate
        self.raw = raw
        self.id = raw["id"]
        self.path = raw["path"]
        self.kind = raw["kind"]
        self.span = raw["span"]
        self.argc = raw["argc"]
        self.blocks = raw["blocks"]
        self.locals = raw["locals"]
        self.exported = raw.get("exported", False)
        self.vis = raw.get("vis")
        self.parent = raw.get("parent")
        self.impl_self = raw.get("impl_self")
        self.impl_trait = raw.get("impl_trait")
        self.impl_preds = raw.get("impl_preds", [])
        self.vars = raw.get("vars", [])
        self._preds = None
        self._succ = None
        self.closures = []
        self.owner = None  # enclosing non-closure fn for closures

    @property
    def name(self):
        return self.crate + "::" + self.path

    @property
    def file(self):
        return self.span["file"]

    def __repr__(self):
        return "<Fn %s>" % self.name

    def loc(self, sp=None):
        sp = sp or self.span
        return "%s:%d" % (sp["file"], sp["line"])

    def var_name(self, local):
        for n, l in self.vars:
            if l == local:
                return n
        return None

    # CFG over non-cleanup edges ------------------------------------------------
    def succ(self, b, cleanup=False):
        t = self.blocks[b]["term"]
        k = t["t"]
        out = []
        if k == "switch":
            out = [c[1] for c in t["cases"]] + [t["otherwise"]]
        elif k in ("goto", "drop", "assert", "call"):
            out = list(t.get("succ", []))
        elif k == "other":
            out = list(t.get("succ", []))
        if cleanup and t.get("unwind", -1) >= 0:
            out.append(t["unwind"])
        seen = []
        for x in out:
            if x not in seen:
                seen.append(x)
        return seen

    def succs(self):
        if self._succ is None:
            self._succ = [self.succ(i) for i in range(len(self.blocks))]
        return self._succ

    def preds(self):
        if self._preds is None:
            p = [[] for _ in self.blocks]
            for i, ss in enumerate(self.succs()):
                for s in ss:
                    p[s].append(i)
            self._preds = p
        return self._preds

    def calls(self):
        for b in self.blocks:
            if b["cleanup"]:
                continue
            t = b["term"]
            if t["t"] == "call":
                yield b["id"], t

    def returns(self):
        return [b["id"] for b in self.blocks if b["term"]["t"] == "return" and not b["cleanup"]]


class Program:
    def __init__(self, facts_dir, cached=False, config="dev"):
        self.dir = facts_dir
        self.cached = cached
        self.config = config
        self.fns = {}
        self.by_name = {}
        self.consts = {}
        self.adts = {}
        self.crates = {}
        self.promoted = {}
        for c in CRATES:
            with open(os.path.join(facts_dir, c + ".json")) as f:
                d = json.load(f)
            self.crates[c] = d
            for raw in d["bodies"]:
                fn = Fn(c, raw)
                if fn.kind == "Promoted":
                    self.promoted[fn.name] = fn
                    continue
                self.fns[fn.id] = fn
                self.by_name.setdefault(fn.name, []).append(fn)
            for k in d["consts"]:
                self.consts[c + "::" + k["path"]] = k
            for a in d["adts"]:
                self.adts[c + "::" + a["path"]] = a
        # closures -> owners
        for fn in list(self.fns.values()):
            if fn.kind == "Closure":
                base = fn.path
                while "::{closure#" in base:
                    base = base[: base.rindex("::{closure#")]
                owners = self.by_name.get(fn.crate + "::" + base, [])
                if owners:
                    fn.owner = owners[0]
                    owners[0].closures.append(fn)

    # lookups ------------------------------------------------------------------
    def fn(self, name, required=True):
        """name is crate::path (exact) ; returns the unique Fn."""
        xs = self.by_name.get(name, [])
        if len(xs) == 1:
            return xs[0]
        if not xs and not required:
            return None
        if not xs:
            raise AnchorMissing("function %s not found" % name)
        raise AnchorMissing("function %s is ambiguous (%d bodies)" % (name, len(xs)))

    def fns_matching(self, pred):
        return [f for f in self.fns.values() if pred(f)]

    def callee_fn(self, term):
        """Fn for a call terminator if its body is in the analysed crates."""
        for k in ("rid", "cid"):
            i = term.get(k)
            if i and i in self.fns:
                return self.fns[i]
        return None

    def const(self, name):
        k = self.consts.get(name)
        if k is None:
            raise AnchorMissing("const %s not found" % name)
        return k

    def unit(self, fn):
        """fn + all (nested) closures created inside it."""
        return [fn] + list(fn.closures)

    def stats(self):
        return {c: len([f for f in self.fns.values() if f.crate == c]) for c in CRATES}


class AnchorMissing(Exception):
    pass


def load(repo=REPO, config="dev"):
    t = time.time()
    d, cached = extract(repo, config)
    p = Program(d, cached, config)
    if os.environ.get("VERIF_NO_INLINE") != "1":
        from . import inline
        p.inlined = inline.run(p)
    else:
        p.inlined = {}
    p.load_s = time.time() - t
    return p


def callee_name(term):
    """Best printable callee: resolved impl path when known, else the written trait path."""
    return term.get("resolved") or term.get("callee") or "?"
