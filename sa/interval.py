"""Mini interval evaluator over MIR operands (constants, casts that fit, % / & >> by constants,
checked-arithmetic tuples, results of functions that return only constants)."""
import re

from .flow import is_place

UMAX = {"u8": 255, "u16": 65535, "u32": 2**32 - 1, "u64": 2**64 - 1, "usize": 2**64 - 1}
SRANGE = {"i8": (-128, 127), "i16": (-32768, 32767), "i32": (-2**31, 2**31 - 1), "i64": (-2**63, 2**63 - 1), "isize": (-2**63, 2**63 - 1)}


def ty_range(ty):
    if ty in UMAX:
        return (0, UMAX[ty])
    if ty in SRANGE:
        return SRANGE[ty]
    if ty == "bool":
        return (0, 1)
    if ty == "char":
        return (0, 0x10FFFF)
    return None


class Interval:
    def __init__(self, prog, fn, sym, ret_ranges=None):
        self.prog = prog
        self.fn = fn
        self.S = sym
        self.ret_ranges = ret_ranges or {}
        self._busy = set()

    def of(self, op, depth=0):
        if op.get("k") == "const":
            if "int" in op:
                return (op["int"], op["int"])
            return None
        if not is_place(op):
            return None
        pl = op["pl"]
        if pl["p"]:
            # `*r` with r = &x, `agg.k` with agg built from operands (a closure's captures), plain copies: look through to the place or operand meant
            r = self._resolve(pl)
            if r is not None and r is not pl:
                if r.get("k") == "const":
                    return self.of(r, depth + 1)
                pl = r
        l = pl["l"]
        proj = pl["p"]
        if depth > 25 or (l, str(proj)) in self._busy:
            return None
        self._busy.add((l, str(proj)))
        try:
            return self._local(l, proj, depth)
        finally:
            self._busy.discard((l, str(proj)))

    def _resolve(self, pl):
        """follow a projected place through reference, copy and aggregate definitions; returns a place, a constant operand, or the place unchanged"""
        cur = pl
        for _ in range(12):
            if not cur["p"]:
                return cur
            ds = self.S.du.whole_defs(cur["l"])
            if len(ds) != 1 or ds[0][2] != "stmt":
                return cur
            rhs = ds[0][3]["rhs"]
            first = cur["p"][0]
            if rhs["rv"] in ("ref", "rawptr") and first == "*":
                cur = {"l": rhs["pl"]["l"], "p": list(rhs["pl"]["p"]) + list(cur["p"][1:])}
            elif rhs["rv"] == "use" and is_place(rhs["ops"][0]):
                q = rhs["ops"][0]["pl"]
                cur = {"l": q["l"], "p": list(q["p"]) + list(cur["p"])}
            elif rhs["rv"] == "agg" and isinstance(first, dict) and "f" in first and isinstance(first["f"], int) and first["f"] < len(rhs["ops"]):
                o = rhs["ops"][first["f"]]
                if is_place(o):
                    cur = {"l": o["pl"]["l"], "p": list(o["pl"]["p"]) + list(cur["p"][1:])}
                elif len(cur["p"]) == 1:
                    return o
                else:
                    return cur
            else:
                return cur
        return cur

    def _local(self, l, proj, depth):
        fn = self.fn
        ds = self.S.du.whole_defs(l)
        decl = ty_range(fn.locals[l]) if not proj else None
        if len(ds) != 1:
            return decl
        (b, i, kind, payload) = ds[0]
        if kind == "call":
            cal = payload.get("callee") or ""
            # lossless widening written as a conversion call (`u64::from(x)`, `x.into()`): the value is the argument's
            if not proj and decl and re.search(r"convert::(From(<[a-z0-9]+>>?)?::from|Into(<[a-z0-9]+>>?)?::into)$", cal) and len(payload["args"]) == 1:
                a0 = payload["args"][0]
                inner = self.of(a0, depth + 1)
                if inner is None and is_place(a0) and not a0["pl"]["p"]:
                    inner = ty_range(fn.locals[a0["pl"]["l"]])
                if inner and decl and decl[0] <= inner[0] and inner[1] <= decl[1]:
                    return inner
                return decl
            g = self.prog.callee_fn(payload)
            if g is not None and not proj:
                r = const_returns(self.prog, g)
                if r:
                    return (min(r), max(r))
                if g.name in self.ret_ranges:
                    return self.ret_ranges[g.name]
            return decl
        rhs = payload["rhs"]
        rv = rhs["rv"]
        if rv == "use" and not proj:
            return self.of(rhs["ops"][0], depth + 1) or decl
        if rv == "cast" and not proj:
            inner = self.of(rhs["ops"][0], depth + 1)
            tr = ty_range(rhs["to"])
            if inner and tr and tr[0] <= inner[0] and inner[1] <= tr[1]:
                return inner
            return tr
        if rv == "bin":
            op = rhs["op"]
            a = self.of(rhs["ops"][0], depth + 1)
            bb = self.of(rhs["ops"][1], depth + 1)
            with_ovf = op.endswith("WithOverflow")
            base = op.replace("WithOverflow", "").replace("Unchecked", "")
            if with_ovf:
                # tuple (value, overflowed): only .0 is meaningful
                if not (len(proj) == 1 and isinstance(proj[0], dict) and proj[0].get("f") == 0):
                    return None
            elif proj:
                return None
            r = None
            if base == "Rem" and bb and bb[0] == bb[1] and bb[0] > 0 and a and a[0] >= 0:
                r = (0, min(a[1], bb[0] - 1))
            elif base == "Div" and bb and bb[0] == bb[1] and bb[0] > 0 and a and a[0] >= 0:
                r = (a[0] // bb[0], a[1] // bb[0])
            elif base == "BitAnd" and bb and bb[0] == bb[1] and bb[0] >= 0:
                r = (0, bb[0])
            elif base == "BitAnd" and a and a[0] == a[1] and a[0] >= 0:
                r = (0, a[0])
            elif base == "Shr" and bb and bb[0] == bb[1] and a and a[0] >= 0:
                r = (a[0] >> bb[0], a[1] >> bb[0])
            elif base == "Shl" and bb and bb[0] == bb[1] and a and a[0] >= 0:
                r = (a[0] << bb[0], a[1] << bb[0])
            elif base == "Add" and a and bb:
                r = (a[0] + bb[0], a[1] + bb[1])
            elif base == "Sub" and a and bb:
                r = (a[0] - bb[1], a[1] - bb[0])
            elif base == "Mul" and a and bb:
                c = [a[0] * bb[0], a[0] * bb[1], a[1] * bb[0], a[1] * bb[1]]
                r = (min(c), max(c))
            if r is None:
                return ty_range(fn.locals[l]) if not with_ovf else None
            return r
        return decl


_cr_cache = {}


def const_returns(prog, g):
    """set of integer constants if every assignment to the return place of g is an integer constant"""
    if g.id in _cr_cache:
        return _cr_cache[g.id]
    vals = set()
    ok = True
    n = 0
    for b in g.blocks:
        if b["cleanup"]:
            continue
        for s in b["stmts"]:
            if s["lhs"]["l"] == 0:
                n += 1
                rhs = s["rhs"]
                if s["lhs"]["p"] or rhs["rv"] != "use" or rhs["ops"][0].get("k") != "const" or "int" not in rhs["ops"][0]:
                    ok = False
                else:
                    vals.add(rhs["ops"][0]["int"])
        t = b["term"]
        if t["t"] == "call" and t["dest"]["l"] == 0:
            ok = False
    r = vals if (ok and n > 0) else None
    _cr_cache[g.id] = r
    return r
