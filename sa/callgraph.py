"""Whole-program call graph over msi + msi_ffi + cfb."""
import re


def _strip_generics(s):
    out = ""
    depth = 0
    for ch in s:
        if ch == "<":
            depth += 1
        elif ch == ">":
            depth -= 1
        elif depth == 0:
            out += ch
    return out


class CallGraph:
    def __init__(self, prog, dyn_gate=None):
        """dyn_gate(trait_method_name) -> bool decides whether dyn dispatch edges are followed (default: all)."""
        self.prog = prog
        self.edges = {}      # fn.id -> set(fn.id)
        self.edge_sites = {}  # (from,to) -> (block, why)
        self.dyn_sites = []  # (fn, block, term, [impl fns])
        self.impls = {}      # "traitpath::method" -> [Fn]
        for f in prog.fns.values():
            if f.impl_trait and f.kind == "AssocFn":
                tr = _strip_generics(f.impl_trait)
                m = f.path.rsplit("::", 1)[-1]
                self.impls.setdefault(tr + "::" + m, []).append(f)
        self.drop_impls = [f for f in prog.fns.values()
                           if f.impl_trait and _strip_generics(f.impl_trait).endswith("ops::Drop") and f.path.endswith("::drop")]
        for f in prog.fns.values():
            self._build(f, dyn_gate)

    def _add(self, a, b, block, why):
        self.edges.setdefault(a.id, set()).add(b.id)
        self.edge_sites.setdefault((a.id, b.id), (block, why))

    def _build(self, f, dyn_gate):
        prog = self.prog
        self.edges.setdefault(f.id, set())
        for c in f.closures:
            if c.owner is f:
                self._add(f, c, None, "closure")
        for b in f.blocks:
            if b["cleanup"]:
                continue
            for s in b["stmts"]:
                for o in s["rhs"].get("ops", []):
                    if o.get("k") == "const" and o.get("fnid") in prog.fns:
                        self._add(f, prog.fns[o["fnid"]], b["id"], "fn-item")
            t = b["term"]
            if t["t"] == "call":
                g = prog.callee_fn(t)
                for a in t["args"]:
                    if a.get("k") == "const" and a.get("fnid") in prog.fns:
                        self._add(f, prog.fns[a["fnid"]], b["id"], "fn-item-arg")
                if g is not None and (t.get("rid") in prog.fns):
                    self._add(f, g, b["id"], "call")
                elif t.get("cid") in prog.fns and not t.get("rid"):
                    # trait method declared in analysed crate, unresolved => dyn or generic
                    self._dyn(f, b["id"], t, dyn_gate)
                elif g is not None:
                    # cid known, rid resolves outside (should not happen) - treat as direct
                    self._add(f, g, b["id"], "call")
                elif not t.get("rid") and t.get("callee"):
                    self._dyn(f, b["id"], t, dyn_gate)
            elif t["t"] == "drop":
                ty = t["ty"]
                for d in self.drop_impls:
                    base = _strip_generics(d.impl_self or "")
                    cands = {base, d.crate + "::" + base}
                    if any(_mentions(ty, c) for c in cands):
                        self._add(f, d, b["id"], "drop-glue")

    def _dyn(self, f, block, t, dyn_gate):
        key = _strip_generics(t["callee"])
        cands = []
        for k, fs in self.impls.items():
            if k == key or k.endswith("::" + key) or key.endswith("::" + k):
                cands.extend(fs)
        if cands:
            self.dyn_sites.append((f, block, t, cands))
            if dyn_gate is None or dyn_gate(key):
                for g in cands:
                    self._add(f, g, block, "dyn")

    def closure(self, entries, stop=None):
        """least set of fn ids closed under edges; stop(fn) true => do not expand"""
        seen = set()
        st = [e.id for e in entries]
        while st:
            i = st.pop()
            if i in seen:
                continue
            seen.add(i)
            f = self.prog.fns[i]
            if stop and stop(f):
                continue
            st.extend(self.edges.get(i, ()))
        return seen

    def path(self, entries, target_id):
        from collections import deque
        prev = {}
        dq = deque()
        for e in entries:
            prev[e.id] = None
            dq.append(e.id)
        while dq:
            i = dq.popleft()
            if i == target_id:
                out = []
                while i is not None:
                    out.append(self.prog.fns[i].name)
                    i = prev[i]
                return out[::-1]
            for j in self.edges.get(i, ()):
                if j not in prev:
                    prev[j] = i
                    dq.append(j)
        return None


def _mentions(ty, base):
    if not base:
        return False
    return re.search(r"(^|[^A-Za-z0-9_:])" + re.escape(base) + r"($|[^A-Za-z0-9_])", ty) is not None
