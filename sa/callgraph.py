"""Whole-program call graph over msi + msi_ffi + cfb."""
import re


def _strip_generics(s):
    out = ""
    depth = 0
    for ch in s:
        if ch == "<":
            depth += 1
        elif ch == ">":
            depth -= 1
        elif depth == 0:
            out += ch
    return out


# external provided methods that call back into trait impls of their receiver / argument
CALLBACKS = [
    (("byteorder::ReadBytesExt::", "std::io::Read::"), ("std::io::Read::read",)),
    (("byteorder::WriteBytesExt::", "std::io::Write::"), ("std::io::Write::write", "std::io::Write::flush")),
    (("std::io::Seek::",), ("std::io::Seek::seek",)),
    (("std::iter::Iterator::", "std::iter::IntoIterator::", "std::iter::ExactSizeIterator::"),
     ("std::iter::Iterator::next", "std::iter::Iterator::size_hint")),
    (("core::fmt::rt::Argument::<'_>::new_display", "std::string::ToString::to_string"), ("std::fmt::Display::fmt",)),
    (("core::fmt::rt::Argument::<'_>::new_debug",), ("std::fmt::Debug::fmt",)),
    (("std::str::<impl str>::parse", "core::str::<impl str>::parse"), ("std::str::FromStr::from_str",)),
    (("std::convert::Into::into",), ("std::convert::From::from",)),
]


def medium_params(f):
    """bare type parameters that are generic arguments of the enclosing impl's Self type (Package<F>,
    CompoundFile<F>, Stream<F>, Sectors<F> ...): they stand for the underlying medium and are never
    instantiated with an analysed type."""
    owner = f.owner or f
    s = owner.impl_self or ""
    if "<" not in s:
        return set()
    inner = s[s.index("<") + 1: s.rindex(">")]
    out = set()
    for a in re.split(r"[,<>\s&]+", inner):
        if re.fullmatch(r"[A-Z][A-Za-z0-9]*", a or ""):
            out.add(a)
    return out


def bare_ty(ty):
    t = (ty or "").strip()
    while t.startswith("&"):
        t = t[1:].lstrip()
        if t.startswith("'"):
            t = t.split(" ", 1)[1] if " " in t else ""
        if t.startswith("mut "):
            t = t[4:]
    return t


def trait_path(impl_trait):
    """'<Self as path::Trait<G>>' -> 'path::Trait'"""
    if not impl_trait:
        return None
    s = impl_trait
    if s.startswith("<") and s.endswith(">"):
        inner = s[1:-1]
        depth = 0
        i = 0
        while i < len(inner):
            ch = inner[i]
            if ch in "<([":
                depth += 1
            elif ch in ">)]" and not (ch == ">" and i > 0 and inner[i - 1] == "-"):
                depth -= 1
            elif depth == 0 and inner.startswith(" as ", i):
                s = inner[i + 4:]
                break
            i += 1
    return _strip_generics(s)


class CallGraph:
    def __init__(self, prog, dyn_gate=None):
        """dyn_gate(trait_method_name) -> bool decides whether dyn dispatch edges are followed (default: all)."""
        self.prog = prog
        self.edges = {}      # fn.id -> set(fn.id)
        self.edge_sites = {}  # (from,to) -> (block, why)
        self.dyn_sites = []  # (fn, block, term, [impl fns])
        self.impls = {}      # "traitpath::method" -> [Fn]
        for f in prog.fns.values():
            if f.impl_trait and f.kind == "AssocFn":
                tr = trait_path(f.impl_trait)
                m = f.path.rsplit("::", 1)[-1]
                self.impls.setdefault(tr + "::" + m, []).append(f)
        self.drop_impls = [f for f in prog.fns.values()
                           if f.impl_trait and (trait_path(f.impl_trait) or "").endswith("ops::Drop") and f.path.endswith("::drop")]
        for f in prog.fns.values():
            self._build(f, dyn_gate)

    def _add(self, a, b, block, why):
        self.edges.setdefault(a.id, set()).add(b.id)
        self.edge_sites.setdefault((a.id, b.id), (block, why))

    def _build(self, f, dyn_gate):
        prog = self.prog
        self.edges.setdefault(f.id, set())
        for c in f.closures:
            if c.owner is f:
                self._add(f, c, None, "closure")
        for b in f.blocks:
            if b["cleanup"]:
                continue
            for s in b["stmts"]:
                for o in s["rhs"].get("ops", []):
                    if o.get("k") == "const" and o.get("fnid") in prog.fns:
                        self._add(f, prog.fns[o["fnid"]], b["id"], "fn-item")
            t = b["term"]
            if t["t"] == "call":
                g = prog.callee_fn(t)
                for a in t["args"]:
                    if a.get("k") == "const" and a.get("fnid") in prog.fns:
                        self._add(f, prog.fns[a["fnid"]], b["id"], "fn-item-arg")
                if g is not None and (t.get("rid") in prog.fns):
                    self._add(f, g, b["id"], "call")
                elif t.get("cid") in prog.fns and not t.get("rid"):
                    # trait method declared in analysed crate, unresolved => dyn or generic
                    self._dyn(f, b["id"], t, dyn_gate)
                elif g is not None:
                    # cid known, rid resolves outside (should not happen) - treat as direct
                    self._add(f, g, b["id"], "call")
                elif not t.get("rid") and t.get("callee"):
                    self._dyn(f, b["id"], t, dyn_gate)
                if g is None and bare_ty(t.get("selfty")) not in medium_params(f):
                    cal = t.get("callee") or ""
                    for pres, targets in CALLBACKS:
                        if cal.startswith(pres):
                            for k in targets:
                                for h in self.impls.get(k, []):
                                    self._add(f, h, b["id"], "callback")
            elif t["t"] == "drop":
                ty = t["ty"]
                for d in self.drop_impls:
                    base = _strip_generics(d.impl_self or "")
                    cands = {base, d.crate + "::" + base}
                    if any(_mentions(ty, c) for c in cands):
                        self._add(f, d, b["id"], "drop-glue")

    def _dyn(self, f, block, t, dyn_gate):
        if bare_ty(t.get("selfty")) in medium_params(f):
            return  # a call on the medium itself: external by definition
        key = _strip_generics(t["callee"])
        cands = []
        for k, fs in self.impls.items():
            if k == key or k.endswith("::" + key) or key.endswith("::" + k):
                cands.extend(fs)
        if cands:
            is_dyn = "dyn " in (t.get("selfty") or "")
            self.dyn_sites.append((f, block, t, cands, is_dyn))
            if not is_dyn or dyn_gate is None or dyn_gate(key):
                for g in cands:
                    self._add(f, g, block, "dyn")

    def closure(self, entries, stop=None):
        """least set of fn ids closed under edges; stop(fn) true => do not expand"""
        seen = set()
        st = [e.id for e in entries]
        while st:
            i = st.pop()
            if i in seen:
                continue
            seen.add(i)
            f = self.prog.fns[i]
            if stop and stop(f):
                continue
            st.extend(self.edges.get(i, ()))
        return seen

    def path(self, entries, target_id):
        from collections import deque
        prev = {}
        dq = deque()
        for e in entries:
            prev[e.id] = None
            dq.append(e.id)
        while dq:
            i = dq.popleft()
            if i == target_id:
                out = []
                while i is not None:
                    out.append(self.prog.fns[i].name)
                    i = prev[i]
                return out[::-1]
            for j in self.edges.get(i, ()):
                if j not in prev:
                    prev[j] = i
                    dq.append(j)
        return None


def _mentions(ty, base):
    if not base:
        return False
    return re.search(r"(^|[^A-Za-z0-9_:])" + re.escape(base) + r"($|[^A-Za-z0-9_])", ty) is not None
