"""Property -> rules."""
import os
import re

from . import facts
from .rules import panic

PROPS = {}


def prop(pid):
    def deco(f):
        PROPS[pid] = f
        return f
    return deco


_inv = {}


def inventory(prog):
    if id(prog) not in _inv:
        _inv[id(prog)] = panic.Inventory(prog)
    return _inv[id(prog)]


def run(pid, ctx):
    try:
        from . import selftest
        selftest.run(ctx)
        if ctx.tier == "thorough" and not os.environ.get("VERIF_EVIDENCE_DIR"):
            from . import mutants
            mutants.run(ctx)
        return PROPS[pid](ctx)
    except facts.AnchorMissing as e:
        ctx.anchor_missing("ANCHOR", str(e))
        return ctx.finish(explanation="a rule could not find its anchor: " + str(e))
    except Exception as e:  # noqa: BLE001 - a rule met code it cannot read: no verdict can be given, which is reported (fail closed), never a bare traceback
        import traceback
        tb = traceback.extract_tb(e.__traceback__)
        where = "%s:%d" % (os.path.basename(tb[-1].filename), tb[-1].lineno) if tb else "?"
        ctx.anchor_missing("ENGINE", "a rule could not read the code it is anchored in (%s: %s at %s)" % (type(e).__name__, str(e)[:120], where))
        return ctx.finish(explanation="a rule could not read the code it is anchored in")


PANIC_TEXT = ("every Assert terminator (overflow, division, bounds) and every call of an external routine from the "
              "deny-table (unwrap/expect/index/panic!/...) in functions reachable from the entry set is discharged by "
              "a guard rule (CONST-SHIFT, CONST-DIV, NONZERO-DOM, CMP-DOM, LEN-DOM, MAP-GET, VARIANT-DOM, COMP-SOME, CONST-UUID, "
              "BSEARCH-IDX, INTERVAL), covered by a frozen one-reason justification whose required dominating guards "
              "are re-checked, or reported")
EXT_ASSUME = ("external crates (std, byteorder, encoding_rs, uuid, cfb internals) are assumed not to panic except "
              "through the routines in the deny-table of sa/rules/panic.py")


@prop("C09")
def c09(ctx):
    from .rules import codec as _codec_ru
    ctx.rule("REF-UNSIGNED", "a string reference is read as an unsigned quantity of two or three bytes and never passes through a narrower or signed type: a dangling reference "
                             "of a corrupted file stays a positive number that the pool answers with the empty string")
    _codec_ru.ref_zero_extended(ctx, "REF-UNSIGNED")
    from .rules import exact as _exact_tn
    _exact_tn.table_name_gate(ctx)
    prog = ctx.prog
    inv = inventory(prog)
    ctx.rule("PANIC", PANIC_TEXT)
    entries = inv.entries_exported("msi") + [f for f in prog.fns.values() if f.crate == "msi_ffi" and f.kind == "Fn"]
    n = inv.run(ctx, "PANIC", entries, label="the public API (open, reads, mutators+flush, ffi exports)")
    ctx.floor("PANIC", "potential panic sites reachable from the public API", n, 60)
    from .rules import alloc, dml
    alloc.run(ctx, entries)
    dml.cap_panic_guard(ctx)
    from .rules import loops
    loops.run(ctx, entries)
    # the justifications of CodePage::encoding()'s unreachable!() arm and of the encode loop's progress rest on these rules
    from .rules import codepage, gates
    codepage.run(ctx)
    gates.join_shape(ctx)
    # ... and the justification of the row[name] lookups in Ast::eval on every condition's column names having been validated
    gates.gate_eval(ctx)
    gates.join_more(ctx)
    # ... and the compound-file layer panics on entry names holding \ : ! — the stream API must not let such a name through
    from .rules import streams as _streams
    ctx.rule("NAME-1", "streamname::is_valid refuses the characters a container entry name cannot hold, the code points the name packing itself produces, and every name "
                       "whose encoded form has more than 31 UTF-16 units (the compound-file layer asserts these and checks none of them)")
    _streams.name_reserved(ctx, "NAME-1")
    _streams.name_limit(ctx, "NAME-1")
    ctx.assume(EXT_ASSUME)
    return ctx.finish(explanation="panic-edge inventory over MIR of msi and msi_ffi, reachability from every exported function; "
                      "each site discharged by a guard rule, justified, or reported; sized allocations bounded (ALLOC-BOUND); every loop cycle consumes from a finite "
                      "source (LOOP-PROGRESS); the premises of the code page justifications re-checked (GATE-ASCII, REPL); the recorded capacity panics confined (CAP-GUARD). "
                      "Stack depth, allocation failure below 4 GiB and the internals of external crates are not decided")


@prop("C04")
def c04(ctx):
    from .rules import eam
    eam.run(ctx)
    eam.pre_valid(ctx)
    eam.m_tgt(ctx)
    from .rules import validity, dml
    validity.info_valid(ctx)
    dml.gate1(ctx)
    dml.limit_w(ctx)
    return ctx.finish(explanation="interprocedural error-after-mutation path rule over the CFGs of the 11 entry functions, with every frozen exception "
                      "backed by a mechanical pre-validation rule; frame condition on the stream each DML statement rewrites. Byte equality after a "
                      "rejected call is not decided")


@prop("C16")
def c16(ctx):
    from .rules import cap, witness
    cap.run(ctx)
    cap.cap2(ctx)
    witness.run(ctx)
    return ctx.finish(explanation="capability closure over the whole-program call graph (msi+cfb) with slot-gated dyn dispatch; "
                      "every function in the closure is an obligation 'contains no write to the medium'")


def panic_module(ctx, rule, module_files, entries_pred, label):
    """PANIC restricted to sites in given source files, reachable from entries"""
    prog = ctx.prog
    inv = inventory(prog)
    ctx.rule(rule, PANIC_TEXT)
    entries = [f for f in prog.fns.values() if f.crate in ("msi", "msi_ffi") and entries_pred(f)]
    n = inv.run(ctx, rule, entries, only=lambda f: f.file in module_files, label=label)
    ctx.assume(EXT_ASSUME)
    return n


@prop("C14")
def c14(ctx):
    from .rules import codepage
    codepage.run(ctx)
    codepage.flow_rules(ctx)
    n = panic_module(ctx, "PANIC(codepage)", ("src/internal/codepage.rs",),
                     lambda f: f.file == "src/internal/codepage.rs" and f.exported, "CodePage::{encode,decode,id,from_id,name}")
    ctx.floor("PANIC(codepage)", "potential panic sites in codepage.rs", n, 3)
    return ctx.finish(explanation="match tables of CodePage::{id,from_id,encoding} recovered from MIR and compared with each other and "
                      "with a frozen Windows reference; dominance check of the ASCII gate; constants of the replacement path")


@prop("C17")
def c17(ctx):
    from .rules import language
    language.run(ctx)
    n = panic_module(ctx, "PANIC(language)", ("src/internal/language.rs",),
                     lambda f: f.file == "src/internal/language.rs" and f.exported, "Language::{from_code,code,from_tag,tag}")
    ctx.floor("PANIC(language)", "potential panic sites in language.rs", n, 3)
    return ctx.finish(explanation="conditions on the LANGUAGES literal table (read from HIR) required by the lookups the MIR of tag()/from_tag() "
                      "actually performs; constants of the fallback paths; frozen Windows reference pairs")


@prop("C19")
def c19(ctx):
    from .rules import expr
    expr.run_c19(ctx)
    expr.run_query_display(ctx)
    from .rules import exact as _exact
    _exact.value_display(ctx)
    return ctx.finish(explanation="finite decision over all (parent operator, side, child operator) triples using the bracket model extracted "
                      "from the MIR of Ast::format_with_precedence and the ladder parsed from examples/msiquery.pest; no expression is printed")


@prop("C13")
def c13(ctx):
    from .rules import expr
    prog = ctx.prog
    inv = inventory(prog)
    ctx.rule("PANIC(eval)", PANIC_TEXT)
    entries = [f for f in prog.fns.values() if f.crate == "msi" and f.file == "src/internal/expr.rs" and f.exported]
    n = inv.run(ctx, "PANIC(eval)", entries, only=lambda f: f.file in ("src/internal/expr.rs", "src/internal/value.rs"),
                label="Expr constructors (constant folding) and Expr::eval")
    ctx.floor("PANIC(eval)", "potential panic sites in expr.rs reachable from Expr's public API", n, 1)
    ctx.floor("PANIC(eval)", "public Expr entry points", len(entries), 25)
    expr.run_c13(ctx)
    expr.op_typed(ctx)
    from .rules import relational
    relational.run(ctx)
    ctx.assume(EXT_ASSUME)
    return ctx.finish(explanation="panic-edge inventory of the evaluator and the folding constructors; operator identity per match arm; "
                      "call-graph identity of folding and lazy evaluation; truthiness and short-circuit shape")


@prop("C18")
def c18(ctx):
    from .rules import timestamp, propset
    timestamp.run(ctx)
    # a creation time is observable again only through the saved summary stream: the value's slot in the property set (type ids, offsets measured on the
    # bytes actually written) and the summary being marked for saving belong to the round trip of the time as much as the tick arithmetic does
    propset.run(ctx)
    from .rules import flush as _flush
    _flush.dirty1(ctx)
    _flush.dirty2(ctx)
    n = panic_module(ctx, "PANIC(timestamp)", ("src/internal/timestamp.rs",),
                     lambda f: (f.file == "src/internal/timestamp.rs" and f.kind != "Closure") or
                     re.search(r"SummaryInfo::(set_creation_time|set_creation_time_to_now|creation_time)$", f.path) is not None,
                     "SummaryInfo::{set_creation_time, set_creation_time_to_now, creation_time} and Timestamp::*")
    ctx.floor("PANIC(timestamp)", "potential panic sites in timestamp.rs", n, 3)
    return ctx.finish(explanation="panic-edge inventory of timestamp.rs (saturate instead of panic) plus the constants and operation shape of both "
                      "conversions read from MIR; drift, idempotence and monotonicity are not decided")


@prop("C12")
def c12(ctx):
    from .rules import gates
    prog = ctx.prog
    gates.gate_eval(ctx)
    gates.join_sib(ctx)
    gates.join_shape(ctx)
    gates.join_more(ctx)
    from .rules import relational
    relational.run(ctx)
    from .rules import expr as _expr, exact as _exact
    _expr.op_typed(ctx)
    _exact.exact_column_lookup(ctx)
    inv = inventory(prog)
    ctx.rule("PANIC(select)", PANIC_TEXT)
    entries = [prog.fn("msi::internal::query::Select::exec"), prog.fn("msi::internal::package::Package::<F>::select_rows")]
    n = inv.run(ctx, "PANIC(select)", entries, only=lambda f: f.file in ("src/internal/query.rs", "src/internal/table.rs", "src/internal/column.rs"),
                label="Select::exec (joins, filters, projections)")
    ctx.floor("PANIC(select)", "potential panic sites on the select path", n, 4)
    ctx.assume(EXT_ASSUME)
    return ctx.finish(explanation="dominance of name validation over every internal expression evaluation; sibling agreement of the two join arms; "
                      "panic inventory of the select path. Which rows a join yields is not decided")


@prop("C11")
def c11(ctx):
    from .rules import streams
    prog = ctx.prog
    streams.run(ctx)
    streams.name4(ctx)
    streams.b64_tables(ctx)
    from .rules import errs as _errs
    _errs.io_exact(ctx)
    inv = inventory(prog)
    ctx.rule("PANIC(streams)", PANIC_TEXT)
    pat = re.compile(r"Package::<F>::(has_stream|streams|read_stream|write_stream|remove_stream|remove_digital_signature|has_digital_signature)$|"
                     r"internal::stream::Stream(Reader|Writer|s)")
    entries = [f for f in prog.fns.values() if f.crate == "msi" and pat.search(f.name) and f.kind != "Closure"]
    n = inv.run(ctx, "PANIC(streams)", entries, only=lambda f: f.file in ("src/internal/streamname.rs", "src/internal/stream.rs", "src/internal/package.rs"),
                label="the stream API")
    ctx.floor("PANIC(streams)", "potential panic sites on the stream API", n, 12)
    ctx.floor("PANIC(streams)", "stream API entry points", len(entries), 12)
    ctx.assume(EXT_ASSUME)
    ctx.note("NOT decided: injectivity of streamname::encode over accepted names, non-aliasing under the container's name comparison, content round-trip")
    return ctx.finish(explanation="must-validate dominance for the three stream operations, classification of every encode call site, listing filter "
                      "against every *_STREAM_NAME constant, signature-removal constants, panic inventory of the stream API; injectivity of the "
                      "name packing is a universal statement about a string function and is not decided")


@prop("C15")
def c15(ctx):
    from .rules import errs, flush
    errs.run(ctx)
    flush.flush1(ctx)
    flush.flush2(ctx)
    flush.close1(ctx)
    flush.close2(ctx)
    flush.close3(ctx)
    flush.adapter_drop(ctx)
    return ctx.finish(explanation="typestate rule flush-before-drop over every internally created container stream; error-discipline rule over all "
                      "io::Result call sites; close-path completeness. That the bytes after Ok equal the described state is not decided")


@prop("C01")
def c01(ctx):
    from .rules import flush, codec
    flush.dirty1(ctx)
    flush.dirty2(ctx)
    flush.close1(ctx)
    flush.close2(ctx)
    flush.close3(ctx)
    codec.codec_e(ctx)
    flush.flush1(ctx)
    codec.cell_codec(ctx)
    codec.pool_codec(ctx)
    codec.pool_load(ctx)
    codec.val_conv(ctx)
    from .rules import propset as _propset, codepage as _codepage
    _propset.run(ctx)
    _propset.summary_ids(ctx)
    _propset.prop_all(ctx)
    _codepage.run(ctx)
    from .rules import exact as _exact
    _exact.lpstr_exact(ctx)
    from .rules import schema as _schema
    _schema.sep1(ctx)
    from .rules import errs as _errs
    _errs.io_exact(ctx)
    from .rules import schema, streams
    schema.table_bits(ctx)
    schema.bits_disjoint(ctx)
    schema.table_clsid(ctx)
    streams.b64_tables(ctx)
    from .rules import codepage
    codepage.flow_rules(ctx)
    return ctx.finish(explanation="structural necessary conditions of persistence: dirty-flag discipline, finisher arming, the three close paths, the "
                      "finisher's completeness and ordering, flush-before-drop, reader/writer symmetry of the cell and pool codecs, and the "
                      "reader's long-string escape never being emitted for a live entry. Equality of reopened values is not decided")


@prop("C10")
def c10(ctx):
    from .rules import propset
    propset.run(ctx)
    propset.summary_ids(ctx)
    propset.prop_all(ctx)
    propset.lang_list(ctx)
    from .rules import exact as _exact
    _exact.lpstr_exact(ctx)
    from .rules import errs as _errs
    _errs.io_exact(ctx)
    from .rules import flush, codepage
    flush.dirty2(ctx)
    flush.close2(ctx)
    # summary strings are stored through CodePage::encode and read back through CodePage::decode
    codepage.run(ctx)
    codepage.flow_rules(ctx)
    n = panic_module(ctx, "PANIC(summary)", ("src/internal/propset.rs", "src/internal/summary.rs"),
                     lambda f: f.file in ("src/internal/summary.rs", "src/internal/propset.rs") and f.kind != "Closure",
                     "SummaryInfo::* and PropertySet::{read,write,set,..}")
    ctx.floor("PANIC(summary)", "potential panic sites in propset.rs / summary.rs", n, 8)
    return ctx.finish(explanation="type-number and size tables of the property-value codec recovered from MIR and compared pairwise and with the format; "
                      "information-flow rule on what is measured; conversion rule for the stored code page id; header byte counting; panic inventory. "
                      "Getter/setter value equality after reopen is not decided")


@prop("C06")
def c06(ctx):
    from .rules import dml as _dml_cs
    _dml_cs.catalog_schema(ctx)
    from .rules import schema
    schema.table_bits(ctx)
    schema.bits_disjoint(ctx)
    schema.info_schema(ctx)
    schema.sep1(ctx)
    schema.table_cat(ctx)
    schema.builder_pass(ctx)
    schema.gate_opt(ctx)
    schema.reg_order(ctx)
    from .rules import flush, dml, eam as _eam, codec as _codec
    flush.dirty1(ctx)
    dml.limit_w(ctx)
    _eam.run(ctx)
    _codec.pool_codec(ctx)
    # a definition is accepted only if its catalog rows pass Column::is_valid_value: what the gate lets through must be storable (a bound of i32::MIN is the null pattern)
    from .rules import validity as _validity
    _validity.info_valid(ctx)
    return ctx.finish(explanation="pack/unpack constants of the column type word, disjointness, attribute/position symmetry of the _Validation row between writer and reader, "
                      "separator guard, category spelling tables. Equality of the reopened schema for all column lists is not decided")


@prop("C02")
def c02(ctx):
    from .rules import codec as _codec_ru
    ctx.rule("REF-UNSIGNED", "a string reference is read as an unsigned quantity of two or three bytes and never passes through a narrower or signed type: a dangling reference "
                             "of a corrupted file stays a positive number that the pool answers with the empty string")
    _codec_ru.ref_zero_extended(ctx, "REF-UNSIGNED")
    from .rules import dml as _dml_cs
    _dml_cs.catalog_schema(ctx)
    from .rules import schema, codec
    codec.cell_codec(ctx)
    codec.pool_codec(ctx)
    codec.pool_load(ctx)
    schema.codec4(ctx)
    schema.table_bits(ctx)
    schema.gate_opt(ctx)
    schema.ins1(ctx)
    schema.info_schema(ctx)
    schema.table_clsid(ctx)
    from .rules import propset, streams, flush
    propset.run(ctx)
    propset.cp_thread(ctx)
    propset.prop_all(ctx)
    from .rules import errs as _errs
    _errs.io_exact(ctx)
    streams.b64_tables(ctx)
    ctx.rule("NAME-1", "streamname::is_valid admits exactly the names whose encoded form has at most 31 UTF-16 units (table names validated with the marker character counted)")
    streams.name_limit(ctx, "NAME-1")
    from .rules import codepage as _codepage
    _codepage.run(ctx)
    flush.dirty1(ctx)
    flush.dirty2(ctx)
    from .rules import dml
    dml.limits(ctx)
    return ctx.finish(explanation="reader-side structure: cell widths, offset-binary constants, column-major nesting, reference-width threading, pool header bit and long-string escape, "
                      "type-word masks and the 1-byte integer quirk, optional catalog streams, repeated-key rejection. That decoded values equal a foreign generator's is not decided")


@prop("C07")
def c07(ctx):
    from .rules import exact as _exact_ll
    _exact_ll.language_list_total(ctx)
    from .rules import dml, validity
    dml.gate1(ctx)
    dml.gate2(ctx)
    validity.info_valid(ctx)
    validity.cat_arms(ctx)
    from .rules import codec as _codec, schema as _schema
    _codec.val_conv(ctx)
    _schema.bits_disjoint(ctx)
    prog = ctx.prog
    inv = inventory(prog)
    ctx.rule("PANIC(validators)", PANIC_TEXT)
    entries = [prog.fn("msi::internal::category::Category::validate"), prog.fn("msi::internal::column::Column::is_valid_value")]
    n = inv.run(ctx, "PANIC(validators)", entries, label="Category::validate and Column::is_valid_value")
    ctx.floor("PANIC(validators)", "potential panic sites in the validators", n, 2)
    ctx.assume(EXT_ASSUME)
    return ctx.finish(explanation="the gate exists, covers the whole batch, precedes every mutation; its rejections are exactly the documented ones; the validator reads "
                      "every constraint field with the documented comparisons; each named category has its own arm of the documented shape; panic inventory of the "
                      "validators. That each grammar matches its documentation on all strings is not decided")


@prop("C05")
def c05(ctx):
    from .rules import dml, schema, validity
    dml.info_key(ctx)
    dml.gate1(ctx)
    dml.gate2(ctx)
    validity.info_valid(ctx)
    validity.cat_arms(ctx)
    dml.ord1(ctx)
    dml.upd_align(ctx)
    dml.key_set(ctx)
    dml.del_only_retain(ctx)
    dml.pairs(ctx)
    from .rules import flush, codec, codepage as _codepage
    flush.dirty1(ctx)
    flush.dirty2(ctx)
    codec.pool_codec(ctx)
    codec.codec_e(ctx)
    _codepage.flow_rules(ctx)
    schema.sep1(ctx)
    flush.close3(ctx)
    schema.ins1(ctx, fns=("msi::internal::query::Insert::exec",), floor=3)
    return ctx.finish(explanation="necessary conditions for unique, ordered keys and valid cells: key awareness of every function that creates cells and rewrites rows, "
                      "duplicate tests before the keyed inserts, validation before creation, key-ordered emission. The invariant over all histories is not decided")


@prop("C08")
def c08(ctx):
    from .rules import dml, codec, flush
    dml.pairs(ctx)
    dml.rows_loaded(ctx)
    dml.key_set(ctx)
    dml.cat_sym(ctx)
    flush.dirty1(ctx)
    flush.dirty2(ctx)
    flush.close2(ctx)
    from .rules import eam
    eam.run(ctx)
    codec.pool_codec(ctx)
    codec.pool_load(ctx)
    codec.cell_codec(ctx)
    codec.codec_e(ctx)
    from .rules import codepage as _codepage, exact as _exact
    _codepage.flow_rules(ctx)
    dml.gate1(ctx)
    dml.gate2(ctx)
    _exact.decref_exact(ctx)
    return ctx.finish(explanation="reference pairing (release on delete, release-then-acquire on update, who-may-call for the pool counters, rows deleted before a table "
                      "stream is removed), catalog symmetry of create/drop, agreement of the two pool writers, cell codec widths and constants, no live empty entry. "
                      "That every refcount equals the number of referring cells after every history is not decided")


@prop("C20")
def c20(ctx):
    from .rules import dml, eam
    dml.limits(ctx)
    eam.run(ctx, rule="EAM")
    eam.pre_valid(ctx)
    prog = ctx.prog
    inv = inventory(prog)
    from .rules import dml as _dml
    _dml.cap_panic_guard(ctx)
    from .rules import codec as _codec
    _codec.short_ref_bound(ctx, "LIMIT-SYM")
    _codec.ref_zero_extended(ctx, "LIMIT-SYM")
    _dml.rows_loaded(ctx)
    # a name longer than the catalog allows is refused by the width test of Column::is_valid_value on the catalog rows; capacity is freed again only if a dropped
    # table's cells are released
    from .rules import validity as _validity
    _validity.info_valid(ctx)
    _dml.pairs(ctx)
    from .rules import flush as _flush
    _flush.dirty1(ctx)
    from .rules import streams as _streams
    ctx.rule("NAME-1", "streamname::is_valid admits exactly the names whose encoded form has at most 31 UTF-16 units (table names validated with the marker character counted)")
    _streams.name_limit(ctx, "NAME-1")
    ctx.rule("PANIC(capacity)", PANIC_TEXT)
    entries = [prog.fn("msi::internal::package::Package::<F>::" + n) for n in ("insert_rows", "update_rows", "delete_rows", "create_table", "drop_table", "write_stream")]
    n = inv.run(ctx, "PANIC(capacity)", entries, only=lambda f: f.file in ("src/internal/stringpool.rs", "src/internal/query.rs", "src/internal/table.rs", "src/internal/value.rs"),
                label="insert_rows / update_rows / create_table (capacity limits)")
    ctx.floor("PANIC(capacity)", "potential panic sites on the mutating paths", n, 10)
    ctx.assume(EXT_ASSUME)
    return ctx.finish(explanation="limits enforced on both sides: reader bounds mirrored by writer-side argument errors before mutation, column-count limits, catalog width "
                      "disagreement covered by pre-validation, no error after mutation, and the panic inventory of the mutating paths (the deliberate capacity panics of "
                      "StringPool::incref are a known finding). Exact boundary arithmetic is not decided")


@prop("C03")
def c03(ctx):
    from .rules import relational, eam, dml
    relational.run(ctx)
    eam.m_tgt(ctx)
    dml.del_only_retain(ctx)
    dml.ord1(ctx)
    dml.key_set(ctx)
    dml.info_key(ctx)
    dml.limits(ctx)
    dml.rows_loaded(ctx)
    dml.upd_align(ctx)
    from .rules import flush, codec as _codec, expr as _expr
    eam.run(ctx)
    _codec.codec_e(ctx)
    _codec.pool_codec(ctx)
    _expr.run_c13(ctx)
    from .rules import exact as _exact
    _exact.exact_column_lookup(ctx)
    _exact.rows_len(ctx)
    flush.dirty1(ctx)
    flush.dirty2(ctx)
    ctx.note("NOT decided: which rows a predicate selects, the values of updated cells, equality with a relational model over histories. Only the structural necessary "
             "conditions named by the rules are decided.")
    return ctx.finish(explanation="PARTIAL: structural necessary conditions of the relational behaviour (filter polarity and scope, assignment target, projection order, exact-size iteration, "
                      "insertion without filtering, one stream rewritten per statement, order-preserving deletion, key-ordered emission). Extensional equality with a relational model is NOT decided")
