"""Recover `match` tables from MIR: SwitchInt on a discriminant / integer whose arms assign the return place."""
from .flow import DefUse, is_place
from .sym import Sym


def describe(prog, fn, S, op):
    """value descriptor for an operand assigned to a result"""
    if op.get("k") == "const":
        if "int" in op:
            return ("int", op["int"])
        if "str" in op:
            return ("str", op["str"])
        if "static" in op:
            return ("static", op["static"])
        if "fn" in op:
            return ("fn", op["fn"])
        return ("const", op.get("txt"))
    return ("expr", S.val(op))


def describe_rhs(prog, fn, S, rhs):
    rv = rhs["rv"]
    if rv == "use":
        return describe(prog, fn, S, rhs["ops"][0])
    if rv == "agg" and rhs.get("adt"):
        return ("variant", rhs["adt"], rhs.get("variant"), [describe(prog, fn, S, o) for o in rhs["ops"]])
    if rv == "ref":
        return ("expr", "&" + S.place(rhs["pl"]))
    if rv == "cast":
        return ("cast", describe(prog, fn, S, rhs["ops"][0]), rhs["to"])
    if rv == "bin":
        return ("expr", "(%s %s %s)" % (S.val(rhs["ops"][0]), rhs["op"].replace("WithOverflow", "!"), S.val(rhs["ops"][1])))
    if rv == "un":
        return ("expr", "(%s %s)" % (rhs["op"], S.val(rhs["ops"][0])))
    return ("expr", rv)


def _resolve_local_desc(prog, fn, S, du, d, depth=0):
    """if a descriptor is ('expr', '_N'-like bare local) try to describe its single def"""
    return d


def arm_result(prog, fn, S, start, dest=0, limit=40):
    """follow a straight chain from `start` until return/merge, returning the descriptor of the last
    assignment to local `dest` (the return place by default). Calls that write dest are described too."""
    b = start
    res = None
    seen = set()
    du = S.du
    env = {}
    while b not in seen and limit > 0:
        seen.add(b)
        limit -= 1
        blk = fn.blocks[b]
        for s in blk["stmts"]:
            if not s["lhs"]["p"] and s["lhs"]["l"] != dest:
                d = describe_rhs(prog, fn, S, s["rhs"])
                r0 = s["rhs"]
                src = None
                if r0["rv"] == "use" and is_place(r0["ops"][0]):
                    src = r0["ops"][0]["pl"]
                elif r0["rv"] == "ref":
                    src = r0["pl"]
                if src is not None and src["l"] in env and all(e == "*" for e in src["p"]):
                    d = env[src["l"]]
                env[s["lhs"]["l"]] = d
            if s["lhs"]["l"] == dest and not s["lhs"]["p"]:
                res = describe_rhs(prog, fn, S, s["rhs"])
                r0 = s["rhs"]
                src = None
                if r0["rv"] == "use" and is_place(r0["ops"][0]):
                    src = r0["ops"][0]["pl"]
                elif r0["rv"] == "ref":
                    src = r0["pl"]
                if src is not None and src["l"] in env and all(e == "*" for e in src["p"]):
                    res = env[src["l"]]
                    continue
                if res[0] == "expr":
                    # `_0 = move _5` where _5 was built just before
                    r = s["rhs"]
                    if r["rv"] == "use" and is_place(r["ops"][0]) and not r["ops"][0]["pl"]["p"]:
                        ds = du.whole_defs(r["ops"][0]["pl"]["l"])
                        if len(ds) == 1 and ds[0][2] == "stmt":
                            res = describe_rhs(prog, fn, S, ds[0][3]["rhs"])
                        elif len(ds) == 1 and ds[0][2] == "call":
                            t = ds[0][3]
                            res = ("call", t.get("resolved") or t.get("callee"), [describe(prog, fn, S, a) for a in t["args"]])
        t = blk["term"]
        if t["t"] == "call" and t["dest"]["l"] == dest and not t["dest"]["p"]:
            res = ("call", t.get("resolved") or t.get("callee"), [describe(prog, fn, S, a) for a in t["args"]])
        if t["t"] in ("goto", "drop", "call", "assert") and t.get("succ"):
            b = t["succ"][0]
            continue
        break
    return res, b


def first_switch(fn, start=0):
    b = start
    seen = set()
    while b not in seen:
        seen.add(b)
        t = fn.blocks[b]["term"]
        if t["t"] == "switch":
            return b
        if t["t"] in ("goto", "call", "drop", "assert") and t.get("succ"):
            b = t["succ"][0]
            continue
        return None
    return None


def switch_table(prog, fn, block=None, dest=0):
    """{value: descriptor, 'otherwise': descriptor} for the switch at `block` (default: first switch)"""
    S = Sym(prog, fn)
    b = first_switch(fn) if block is None else block
    if b is None:
        return None, None
    t = fn.blocks[b]["term"]
    out = {}
    for v, tgt in t["cases"]:
        out[v], _ = arm_result(prog, fn, S, tgt, dest)
    out["otherwise"], _ = arm_result(prog, fn, S, t["otherwise"], dest)
    return out, S.val(t["discr"])


def enum_variants(prog, crate, path):
    a = prog.adts.get(crate + "::" + path)
    if not a:
        return None
    return {v["discr"]: v["name"] for v in a["variants"]}


def enum_table(prog, fn, enum_path, dest=0):
    """variant name -> descriptor for a `match *self {..}` over enum_path; unlisted variants get the otherwise arm"""
    tab, discr = switch_table(prog, fn, dest=dest)
    if tab is None:
        return None
    vs = enum_variants(prog, fn.crate, enum_path)
    if vs is None:
        return None
    out = {}
    other = tab.get("otherwise")
    for d, name in vs.items():
        out[name] = tab.get(d, other)
    return out


def str_match_table(prog, fn, dest=0, want_adt=None):
    """for `match s { "lit" => X, ... }`: list of (literal, descriptor of arm result)"""
    S = Sym(prog, fn)
    out = []
    for b, t in fn.calls():
        if (t.get("callee") or "").endswith("PartialEq::eq"):
            lit = None
            for a in t["args"]:
                v = S.val(a)
                if "s:'" in v or 's:"' in v:
                    import re
                    m = re.search(r"s:(['\"])(.*)\1", v)
                    if m:
                        lit = m.group(2)
            if lit is None:
                continue
            nb = t["succ"][0]
            sw = fn.blocks[nb]["term"]
            if sw["t"] != "switch":
                continue
            true_t = sw["otherwise"] if all(c[0] == 0 for c in sw["cases"]) else None
            for c in sw["cases"]:
                if c[0] == 1:
                    true_t = c[1]
            if true_t is None:
                continue
            res, _ = arm_result(prog, fn, S, true_t, dest)
            if want_adt and not (res and want_adt in str(res)):
                # the arm's value goes to a local first (`let c = match s { .. => X, .. }; Ok(c)`): the first aggregate of the wanted type on the arm's straight line
                cur, steps = true_t, 0
                while cur is not None and steps < 4:
                    steps += 1
                    bl = fn.blocks[cur]
                    hit = [st for st in bl["stmts"] if st["rhs"]["rv"] == "agg" and (st["rhs"].get("adt") or "").endswith(want_adt)]
                    if hit:
                        res = ("variant", hit[0]["rhs"]["adt"], hit[0]["rhs"].get("variant"), [])
                        res = "%s::%s{}" % (hit[0]["rhs"]["adt"], hit[0]["rhs"].get("variant"))
                        break
                    nx = fn.succs()[cur]
                    cur = nx[0] if len(nx) == 1 else None
            out.append((lit, res))
    return out
