"""Def-use helpers over MIR at opt-level 0 (temporaries are close to single assignment)."""


def is_place(op):
    return op.get("k") in ("copy", "move")


def op_local(op):
    """local number if operand is a bare local, else None"""
    if is_place(op) and not op["pl"]["p"]:
        return op["pl"]["l"]
    return None


def op_base(op):
    if is_place(op):
        return op["pl"]["l"]
    return None


def const_int(op):
    if op.get("k") == "const" and "int" in op:
        return op["int"]
    return None


def const_str(op):
    if op.get("k") == "const" and "str" in op:
        return op["str"]
    return None


def proj_fields(pl):
    """names of named struct fields along the projection"""
    return [e["n"] for e in pl["p"] if isinstance(e, dict) and "f" in e]


def place_key(pl):
    out = ["_%d" % pl["l"]]
    for e in pl["p"]:
        if e == "*":
            out.append("*")
        elif isinstance(e, dict):
            if "f" in e:
                out.append(".%s" % (e["n"] or e["f"]))
            elif "dc" in e:
                out.append("@%s" % (e["n"] or e["dc"]))
            elif "idx" in e:
                out.append("[_%d]" % e["idx"])
            elif "cidx" in e:
                out.append("[%d]" % e["cidx"])
            else:
                out.append("?")
        else:
            out.append("?")
    return "".join(out)


class DefUse:
    def __init__(self, fn):
        self.fn = fn
        self.defs = {}  # local -> list of (block, idx|'T', kind, payload)
        for b in fn.blocks:
            if b["cleanup"]:
                continue
            for i, s in enumerate(b["stmts"]):
                l = s["lhs"]
                self.defs.setdefault(l["l"], []).append((b["id"], i, "stmt", s))
            t = b["term"]
            if t["t"] == "call":
                d = t["dest"]
                self.defs.setdefault(d["l"], []).append((b["id"], "T", "call", t))

    def whole_defs(self, local):
        """definitions that assign the whole local (no projection on lhs)"""
        out = []
        for d in self.defs.get(local, []):
            if d[2] == "stmt" and d[3]["lhs"]["p"]:
                continue
            if d[2] == "call" and d[3]["dest"]["p"]:
                continue
            out.append(d)
        return out

    def origins(self, op, depth=0, seen=None):
        """Backward trace of an operand (or {'l':n,'p':[]} place) to its sources.
        Returns list of tuples:
          ('const', op) ('param', n, projpath) ('call', block, term, projpath) ('agg', block, stmt, projpath)
          ('bin', block, stmt) ('un', block, stmt) ('discr', block, stmt) ('unknown', why)
        projpath = list of field names / '*' applied after the source (outermost last)."""
        if seen is None:
            seen = set()
        if "k" in op:
            if op["k"] == "const":
                return [("const", op)]
            if not is_place(op):
                return [("unknown", "operand")]
            pl = op["pl"]
        else:
            pl = op
        return self._place_origins(pl, depth, seen)

    def _place_origins(self, pl, depth, seen):
        l = pl["l"]
        proj = [("*" if e == "*" else (e.get("n") or e.get("f") if "f" in e else ("@%s" % e.get("n") if "dc" in e else "[]")))
                for e in pl["p"]]
        key = (l, tuple(map(str, proj)))
        if key in seen or depth > 40:
            return [("unknown", "cycle")]
        seen = seen | {key}
        fn = self.fn
        if 1 <= l <= fn.argc and not self.whole_defs(l):
            return [("param", l, proj)]
        out = []
        ds = self.whole_defs(l)
        if not ds:
            # partially assigned aggregates (field-wise) or never assigned
            pd = self.defs.get(l, [])
            if pd:
                return [("partial", l, proj)]
            return [("unknown", "nodef _%d" % l)]
        for (b, i, kind, payload) in ds:
            if kind == "call":
                out.append(("call", b, payload, proj))
                continue
            rhs = payload["rhs"]
            rv = rhs["rv"]
            if rv == "use":
                for o in self.origins(rhs["ops"][0], depth + 1, seen):
                    out.append(_extend(o, proj))
            elif rv == "ref" or rv == "rawptr":
                for o in self._place_origins(rhs["pl"], depth + 1, seen):
                    out.append(_extend(_extend(o, ["&"]), proj))
            elif rv == "cast":
                for o in self.origins(rhs["ops"][0], depth + 1, seen):
                    out.append(_extend(_extend(o, ["as:" + rhs["to"]]), proj))
            elif rv == "agg":
                out.append(("agg", b, payload, proj))
            elif rv == "bin":
                out.append(("bin", b, payload, proj))
            elif rv == "un":
                out.append(("un", b, payload, proj))
            elif rv == "discr":
                out.append(("discr", b, payload, proj))
            else:
                out.append(("unknown", rv))
        return out

    def uses_of(self, local):
        """(block, where, thing) for every read of local (any projection)"""
        out = []
        for b in self.fn.blocks:
            if b["cleanup"]:
                continue
            for i, s in enumerate(b["stmts"]):
                if _rhs_reads(s["rhs"], local) or (s["lhs"]["l"] == local and s["lhs"]["p"]) or _proj_reads(s["lhs"], local):
                    out.append((b["id"], i, s))
            t = b["term"]
            if _term_reads(t, local):
                out.append((b["id"], "T", t))
        return out


def _extend(o, proj):
    if not proj:
        return o
    if o[0] in ("param",):
        return (o[0], o[1], list(o[2]) + list(proj))
    if o[0] in ("call", "agg", "bin", "un", "discr"):
        if len(o) == 4:
            return (o[0], o[1], o[2], list(o[3]) + list(proj))
        return (o[0], o[1], o[2], list(proj))
    if o[0] == "partial":
        return (o[0], o[1], list(o[2]) + list(proj))
    if o[0] == "const":
        return ("const", o[1], list(o[2]) + list(proj)) if len(o) > 2 else ("const", o[1], list(proj))
    return o


def _op_reads(op, local):
    if is_place(op):
        if op["pl"]["l"] == local:
            return True
        return _proj_reads(op["pl"], local)
    return False


def _proj_reads(pl, local):
    for e in pl["p"]:
        if isinstance(e, dict) and e.get("idx") == local:
            return True
    return False


def _rhs_reads(rhs, local):
    if "ops" in rhs and any(_op_reads(o, local) for o in rhs["ops"]):
        return True
    if "pl" in rhs and (rhs["pl"]["l"] == local or _proj_reads(rhs["pl"], local)):
        return True
    return False


def _term_reads(t, local):
    k = t["t"]
    if k == "call":
        return any(_op_reads(a, local) for a in t["args"]) or _op_reads(t["fnop"], local)
    if k == "switch":
        return _op_reads(t["discr"], local)
    if k == "assert":
        return _op_reads(t["cond"], local) or any(_op_reads(o, local) for o in t["mops"])
    if k == "drop":
        return t["pl"]["l"] == local
    return False


def derived_locals(fn, seeds, through_calls=None):
    """Forward slice: locals whose value derives from any seed local via use/ref/cast/field copies
    (and via call results when through_calls(term) is true)."""
    derived = set(seeds)
    mut_borrow_of = {}
    for b in fn.blocks:
        for s in b["stmts"]:
            r = s["rhs"]
            if r["rv"] == "ref" and r.get("mut") and not s["lhs"]["p"]:
                mut_borrow_of[s["lhs"]["l"]] = r["pl"]["l"]
    changed = True
    while changed:
        changed = False
        for b in fn.blocks:
            if b["cleanup"]:
                continue
            for s in b["stmts"]:
                tgt = s["lhs"]["l"]
                if tgt in derived:
                    continue
                rhs = s["rhs"]
                if rhs["rv"] in ("use", "cast", "ref", "rawptr", "agg", "bin", "un", "discr"):
                    if any(_rhs_reads(rhs, d) for d in derived):
                        derived.add(tgt)
                        changed = True
            t = b["term"]
            if t["t"] == "call" and through_calls:
                tainted = any(any(_op_reads(a, d) for d in derived) for a in t["args"])
                if tainted and t["dest"]["l"] not in derived and through_calls(t):
                    derived.add(t["dest"]["l"])
                    changed = True
                if tainted and through_calls(t):
                    # a tainted value handed to a call together with `&mut L` may be stored into L (push, push_str, insert ...)
                    for a in t["args"]:
                        if a.get("pl") and not a["pl"]["p"] and a["pl"]["l"] in mut_borrow_of:
                            L = mut_borrow_of[a["pl"]["l"]]
                            if L not in derived:
                                derived.add(L)
                                changed = True
    return derived
