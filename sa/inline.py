"""MIR-level inlining of *new* private helpers.

Shape rules are written against the functions of the tree they were confirmed on (tables/known_fns.json lists them). A
refactoring that extracts a private helper out of one of those functions moves the statements the rules look at into a
function no rule knows. To keep the rules' view stable, every call from an analysed function to a function of the same
workspace that is *not* in the frozen list is replaced by the callee's body (recursively, bottom-up; recursive helpers and
helpers above a size bound are left as calls). The raw bodies stay available (Program.raw_fns) for inventories that count
sites per function."""
import copy
import json
import os
import re

VERIF = os.path.dirname(os.path.dirname(os.path.abspath(__file__)))
MAX_BLOCKS = 400
MAX_DEPTH = 4
EXPAND_ITER = os.environ.get("VERIF_ITER_EXPAND") == "1"  # global expansion of iterator combinators: off (rules read the combinator forms); see expand_view


def load_known():
    with open(os.path.join(VERIF, "tables", "known_fns.json")) as f:
        return set(json.load(f)["functions"])


def load_signatures():
    with open(os.path.join(VERIF, "tables", "known_fns.json")) as f:
        return json.load(f).get("signatures", {})


def _rename_in_terms(prog, old_rel, new_rel):
    """rewrite call-site spellings of a function path (crate-relative) from new_rel back to old_rel"""
    for f in prog.fns.values():
        for b in f.blocks:
            t = b["term"]
            if t["t"] != "call":
                continue
            for k in ("callee", "resolved", "written"):
                v = t.get(k)
                if isinstance(v, str) and new_rel in v:
                    t[k] = re.sub(r"(?<![A-Za-z0-9_])%s(?![A-Za-z0-9_])" % re.escape(new_rel), old_rel, v)
            fo = t.get("fnop")
            if isinstance(fo, dict):
                for k in ("fn", "fnargs", "ty"):
                    v = fo.get(k)
                    if isinstance(v, str) and new_rel in v:
                        fo[k] = re.sub(r"(?<![A-Za-z0-9_])%s(?![A-Za-z0-9_])" % re.escape(new_rel), old_rel, v)


def normalise_fields_and_consts(prog):
    """private struct fields and constants that were merely renamed get their reference names back (same ADT path, same field types in the same
    order; same module, type and value for a constant)"""
    with open(os.path.join(VERIF, "tables", "known_fns.json")) as f:
        ref = json.load(f)
    out = {}
    ref_names = {fn_ for vs in ref.get("adts", {}).values() for v in vs for fn_, ft in v}
    ren = {}
    for path, vs in ref.get("adts", {}).items():
        a = prog.adts.get(path)
        if not a or len(a["variants"]) != len(vs):
            continue
        for v_ref, v_cur in zip(vs, a["variants"]):
            cur = v_cur["fields"]
            if len(cur) != len(v_ref) or [t for n, t in cur] != [t for n, t in v_ref]:
                continue
            for (n_old, t_old), fld in zip(v_ref, cur):
                n_new = fld[0]
                if n_new != n_old and n_new not in ref_names and ren.get(n_new, n_old) == n_old:
                    ren[n_new] = n_old
                    fld[0] = n_old
    if ren:
        def fix(pl):
            for e in pl["p"]:
                if isinstance(e, dict) and e.get("n") in ren:
                    e["n"] = ren[e["n"]]
        for f in list(prog.fns.values()) + list(prog.promoted.values()):
            for b in f.blocks:
                for st in b["stmts"]:
                    fix(st["lhs"])
                    r = st["rhs"]
                    if "pl" in r:
                        fix(r["pl"])
                    for o in r.get("ops", []):
                        if o.get("pl"):
                            fix(o["pl"])
                t = b["term"]
                for o in list(t.get("args", [])) + [t.get("discr"), t.get("cond"), t.get("fnop")] + list(t.get("mops", [])):
                    if isinstance(o, dict) and o.get("pl"):
                        fix(o["pl"])
                for k in ("dest", "pl"):
                    if isinstance(t.get(k), dict) and "p" in t[k]:
                        fix(t[k])
        out["fields"] = ren
    cren = {}
    for name, (ty, val) in ref.get("consts", {}).items():
        if name in prog.consts:
            continue
        mod = name.rsplit("::", 1)[0]
        cands = [k for k, c in prog.consts.items() if k not in ref.get("consts", {}) and k.rsplit("::", 1)[0] == mod and c.get("ty") == ty and c.get("val") == val]
        if len(cands) == 1:
            prog.consts[name] = prog.consts[cands[0]]
            cren[cands[0]] = name
    if cren:
        out["consts"] = cren
    return out


def normalise_renames(prog, ws=("msi", "msi_ffi")):
    """a private function of the reference tree that is missing today, with exactly one new function of the same signature in the same
    module/impl (renamed) or with the same name elsewhere (moved), is given its reference name back, at its definition and at every call site"""
    sigs = load_signatures()
    known = set(sigs) or load_known()
    missing = [n for n in known if n.split("::", 1)[0] in ws and n not in prog.by_name]
    if not missing:
        return {}
    unknown = [g for g in prog.fns.values() if g.crate in ws and g.kind in ("Fn", "AssocFn") and g.name not in known]
    done = {}
    used = set()
    for m in sorted(missing):
        sig = sigs.get(m)
        if sig is None:
            continue
        parent, last = m.rsplit("::", 1)
        same_sig = [g for g in unknown if g.id not in used and [g.locals[i] for i in range(0, g.argc + 1)] == sig]
        cands = [g for g in same_sig if g.name.rsplit("::", 1)[0] == parent] or [g for g in same_sig if g.name.rsplit("::", 1)[1] == last]
        if len(cands) != 1:
            continue
        g = cands[0]
        used.add(g.id)
        old_rel, new_rel = m.split("::", 1)[1], g.path
        prog.by_name.pop(g.name, None)
        for c in prog.fns.values():
            if c is not g and c.path.startswith(new_rel + "::{closure"):
                prog.by_name.pop(c.name, None)
                c.path = old_rel + c.path[len(new_rel):]
                prog.by_name.setdefault(c.name, []).append(c)
        g.path = old_rel
        prog.by_name.setdefault(g.name, []).append(g)
        _rename_in_terms(prog, old_rel, new_rel)
        done[m] = g.crate + "::" + new_rel
    return done


def _map_place(pl, lo):
    out = {"l": pl["l"] + lo, "p": []}
    for e in pl["p"]:
        if isinstance(e, dict) and "idx" in e:
            e = dict(e)
            e["idx"] = e["idx"] + lo
        out["p"].append(e)
    return out


def _map_op(op, lo):
    if op.get("k") in ("copy", "move"):
        o = dict(op)
        o["pl"] = _map_place(op["pl"], lo)
        return o
    return op


def _map_block(b, lo, bo):
    nb = {"id": b["id"] + bo, "cleanup": b["cleanup"], "stmts": [], "inl": True}
    for s in b["stmts"]:
        ns = dict(s)
        ns["lhs"] = _map_place(s["lhs"], lo)
        r = dict(s["rhs"])
        if "ops" in r:
            r["ops"] = [_map_op(o, lo) for o in r["ops"]]
        if "pl" in r:
            r["pl"] = _map_place(r["pl"], lo)
        ns["rhs"] = r
        nb["stmts"].append(ns)
    t = dict(b["term"])
    k = t["t"]
    if "succ" in t:
        t["succ"] = [x + bo for x in t["succ"]]
    if t.get("unwind", -1) is not None and isinstance(t.get("unwind"), int) and t.get("unwind", -1) >= 0:
        t["unwind"] = t["unwind"] + bo
    if k == "switch":
        t["discr"] = _map_op(t["discr"], lo)
        t["cases"] = [[c[0], c[1] + bo] for c in t["cases"]]
        t["otherwise"] = t["otherwise"] + bo
    elif k == "call":
        t["args"] = [_map_op(a, lo) for a in t["args"]]
        t["dest"] = _map_place(t["dest"], lo)
        if t.get("fnop", {}).get("k") in ("copy", "move"):
            t["fnop"] = _map_op(t["fnop"], lo)
    elif k == "assert":
        t["cond"] = _map_op(t["cond"], lo)
        t["mops"] = [_map_op(o, lo) for o in t["mops"]]
    elif k == "drop":
        t["pl"] = _map_place(t["pl"], lo)
    nb["term"] = t
    return nb


# Option / Result combinators taking a closure, written out as the match they stand for.  (variant index of the arm that runs the closure,
# what the other arm yields, what the closure arm yields, index of the closure argument)
COMBINATORS = {
    r"option::Option::<T>::is_none_or$": (1, ("const", 1), ("ret",), 1),
    r"option::Option::<T>::is_some_and$": (1, ("const", 0), ("ret",), 1),
    r"option::Option::<T>::map_or$": (1, ("arg", 1), ("ret",), 2),
    r"option::Option::<T>::and_then$": (1, ("agg", "std::option::Option", "None", 0, None), ("ret",), 1),
    r"option::Option::<T>::map$": (1, ("agg", "std::option::Option", "None", 0, None), ("wrap", "std::option::Option", "Some", 1), 1),
    r"result::Result::<T, E>::is_ok_and$": (0, ("const", 0), ("ret",), 1),
    r"result::Result::<T, E>::map_or$": (0, ("arg", 1), ("ret",), 2),
    r"result::Result::<T, E>::and_then$": (0, ("agg", "std::result::Result", "Err", 1, "payload"), ("ret",), 1),
    r"result::Result::<T, E>::map$": (0, ("agg", "std::result::Result", "Err", 1, "payload"), ("wrap", "std::result::Result", "Ok", 0), 1),
    r"result::Result::<T, E>::map_err$": (1, ("agg", "std::result::Result", "Ok", 0, "payload"), ("wrap", "std::result::Result", "Err", 1), 1),
}
_VNAME = {"std::option::Option": {0: "None", 1: "Some"}, "std::result::Result": {0: "Ok", 1: "Err"}}


def _closure_of_operand(fn, op, closures_by_id):
    """the closure Fn whose value the operand holds (a local assigned a closure aggregate, possibly through plain moves)"""
    seen = 0
    while op.get("pl") and not op["pl"]["p"] and seen < 4:
        seen += 1
        l = op["pl"]["l"]
        defs = [s for bl in fn.blocks if not bl["cleanup"] for s in bl["stmts"] if s["lhs"]["l"] == l and not s["lhs"]["p"]]
        if len(defs) != 1:
            return None, None
        r = defs[0]["rhs"]
        if r["rv"] == "agg" and r.get("cid") in closures_by_id:
            return closures_by_id[r["cid"]], l
        if r["rv"] == "use" and r["ops"][0].get("pl"):
            op = r["ops"][0]
            continue
        return None, None
    return None, None


def expand_combinator(fn, b, view_of, closures_by_id):
    """rewrite `recv.comb(.., closure)` at the end of block b into `match recv { arm => closure body, other => default }`; returns True when done"""
    t = b["term"]
    cal = t.get("callee") or ""
    spec = next((v for k, v in COMBINATORS.items() if re.search(k, cal)), None)
    if spec is None or not t.get("succ"):
        return False
    arm, other, mine, ci = spec
    if len(t["args"]) <= ci or not t["args"][0].get("pl"):
        return False
    c, cl_local = _closure_of_operand(fn, t["args"][ci], closures_by_id)
    if c is None:
        return False
    g = view_of(c)
    if g is None or len(g.blocks) > MAX_BLOCKS or g.argc != 2:
        return False
    recv = t["args"][0]["pl"]
    adt = "std::option::Option" if "option::Option" in cal else "std::result::Result"
    sp = t.get("sp")
    lo, bo = len(fn.locals), len(fn.blocks)
    fn.locals.extend(g.locals)
    new = [_map_block(x, lo, bo) for x in g.blocks]
    ret_id, other_id, mine_id = bo + len(new), bo + len(new) + 1, bo + len(new) + 2
    d = b.get("inl_depth", 0) + 1
    for nb in new:
        nb["inl_depth"] = d
        nb["inl_from"] = g.name
        if nb["term"]["t"] == "return":
            nb["term"] = {"t": "goto", "succ": [ret_id], "sp": nb["term"].get("sp") or sp}
    dl = len(fn.locals)
    fn.locals.append("isize")

    def payload(vidx):
        return {"l": recv["l"], "p": list(recv["p"]) + [{"dc": vidx, "n": _VNAME[adt][vidx]}, {"f": 0, "n": None}]}
    res = {"k": "move", "pl": {"l": lo, "p": []}}
    if mine[0] == "ret":
        rhs = {"rv": "use", "ops": [res]}
    else:
        rhs = {"rv": "agg", "adt": mine[1], "variant": mine[2], "vidx": mine[3], "ops": [res]}
    mk = dict(cleanup=False, inl=True, inl_depth=b.get("inl_depth", 0), inl_from=g.name)
    retb = dict(mk, id=ret_id, stmts=[{"lhs": t["dest"], "rhs": rhs, "sp": sp}], term={"t": "goto", "succ": [t["succ"][0]], "sp": sp})
    if other[0] == "const":
        orhs = {"rv": "use", "ops": [{"k": "const", "ty": "bool", "int": other[1], "bits": 8}]}
    elif other[0] == "arg":
        orhs = {"rv": "use", "ops": [t["args"][other[1]]]}
    else:
        ops = [{"k": "move", "pl": payload(other[3])}] if other[4] == "payload" else []
        orhs = {"rv": "agg", "adt": other[1], "variant": other[2], "vidx": other[3], "ops": ops}
    otherb = dict(mk, id=other_id, stmts=[{"lhs": t["dest"], "rhs": orhs, "sp": sp}], term={"t": "goto", "succ": [t["succ"][0]], "sp": sp})
    envty = g.locals[1]
    env_pl = {"l": cl_local, "p": []}
    if envty.startswith("&"):
        env_rhs = {"rv": "ref", "mut": envty.startswith("&mut"), "pl": env_pl}
    else:
        env_rhs = {"rv": "use", "ops": [{"k": "move", "pl": env_pl}]}
    mineb = dict(mk, id=mine_id, stmts=[{"lhs": {"l": lo + 1, "p": []}, "rhs": env_rhs, "sp": sp},
                                        {"lhs": {"l": lo + 2, "p": []}, "rhs": {"rv": "use", "ops": [{"k": "move", "pl": payload(arm)}]}, "sp": sp}],
                 term={"t": "goto", "succ": [bo], "sp": sp})
    b["stmts"].append({"lhs": {"l": dl, "p": []}, "rhs": {"rv": "discr", "pl": recv}, "sp": sp})
    b["term"] = {"t": "switch", "discr": {"k": "move", "pl": {"l": dl, "p": []}}, "cases": [[arm, mine_id]], "otherwise": other_id, "sp": sp, "expanded_call": cal}
    fn.blocks.extend(new)
    fn.blocks.extend([retb, otherb, mineb])
    fn.vars = list(fn.vars) + [[nm, l + lo] for nm, l in g.vars]
    return True


ITER_COMBINATORS = {
    r"iter::Iterator::for_each$": "for_each",
    r"iter::Iterator::find_map$": "find_map",
    r"iter::Iterator::find$": "find",
    r"iter::Iterator::any$": "any",
    r"iter::Iterator::all$": "all",
}


def expand_iter_combinator(fn, b, view_of, closures_by_id):
    """write `iter.for_each(f)` / `find_map` / `find` / `any` / `all` out as the loop over Iterator::next they stand for"""
    t = b["term"]
    cal = t.get("callee") or ""
    kind = next((v for k, v in ITER_COMBINATORS.items() if re.search(k, cal)), None)
    if kind is None or not t.get("succ") or len(t["args"]) != 2 or not t["args"][0].get("pl"):
        return False
    c, cl_local = _closure_of_operand(fn, t["args"][1], closures_by_id)
    if c is None:
        return False
    g = view_of(c)
    if g is None or len(g.blocks) > MAX_BLOCKS or g.argc != 2:
        return False
    sp = t.get("sp")
    recv = t["args"][0]["pl"]
    recv_ty = fn.locals[recv["l"]] if not recv["p"] else "?"
    lo, bo = len(fn.locals), len(fn.blocks)
    fn.locals.extend(g.locals)
    new = [_map_block(x, lo, bo) for x in g.blocks]
    H = bo + len(new)
    HS, BIND, RET, EXITN, FOUND = H + 1, H + 2, H + 3, H + 4, H + 5
    d = b.get("inl_depth", 0) + 1
    for nb in new:
        nb["inl_depth"] = d
        nb["inl_from"] = g.name
        if nb["term"]["t"] == "return":
            nb["term"] = {"t": "goto", "succ": [RET], "sp": nb["term"].get("sp") or sp}
    param_ty = g.locals[2]
    item_ty = param_ty[1:].lstrip() if kind == "find" and param_ty.startswith("&") else param_ty
    nloc = len(fn.locals)
    fn.locals.append("std::option::Option<%s>" % item_ty)
    dloc = len(fn.locals)
    fn.locals.append("isize")
    rmloc = len(fn.locals)
    fn.locals.append("&mut " + recv_ty)
    itloc = len(fn.locals)
    fn.locals.append(item_ty)
    d2loc = len(fn.locals)
    fn.locals.append("isize")
    mk = dict(cleanup=False, inl=True, inl_depth=b.get("inl_depth", 0), inl_from=g.name)
    by_value = kind == "for_each"
    it_ty = re.sub(r"^&mut\s*", "", recv_ty)
    hstm = []
    if by_value:
        hstm.append({"lhs": {"l": rmloc, "p": []}, "rhs": {"rv": "ref", "mut": True, "pl": recv}, "sp": sp})
        nxt_arg = {"k": "move", "pl": {"l": rmloc, "p": []}}
    else:
        nxt_arg = {"k": "copy", "pl": recv}
    nm = "<%s as std::iter::Iterator>::next" % it_ty
    hb = dict(mk, id=H, stmts=hstm, term={"t": "call", "callee": "std::iter::Iterator::next", "resolved": nm, "args": [nxt_arg], "dest": {"l": nloc, "p": []}, "succ": [HS],
                                            "unwind": -1, "sp": sp, "written": nm, "synthetic": cal, "fnop": {"k": "const", "txt": nm}})
    hsb = dict(mk, id=HS, stmts=[{"lhs": {"l": dloc, "p": []}, "rhs": {"rv": "discr", "pl": {"l": nloc, "p": []}}, "sp": sp}],
               term={"t": "switch", "discr": {"k": "move", "pl": {"l": dloc, "p": []}}, "cases": [[1, BIND]], "otherwise": EXITN, "sp": sp})
    envty = g.locals[1]
    env_pl = {"l": cl_local, "p": []}
    env_rhs = {"rv": "ref", "mut": envty.startswith("&mut"), "pl": env_pl} if envty.startswith("&") else {"rv": "use", "ops": [{"k": "move", "pl": env_pl}]}
    payload = {"l": nloc, "p": [{"dc": 1, "n": "Some"}, {"f": 0, "n": None}]}
    bstm = [{"lhs": {"l": lo + 1, "p": []}, "rhs": env_rhs, "sp": sp}]
    if kind == "find":
        bstm.append({"lhs": {"l": itloc, "p": []}, "rhs": {"rv": "use", "ops": [{"k": "move", "pl": payload}]}, "sp": sp})
        bstm.append({"lhs": {"l": lo + 2, "p": []}, "rhs": {"rv": "ref", "mut": False, "pl": {"l": itloc, "p": []}}, "sp": sp})
    else:
        bstm.append({"lhs": {"l": lo + 2, "p": []}, "rhs": {"rv": "use", "ops": [{"k": "move", "pl": payload}]}, "sp": sp})
    bindb = dict(mk, id=BIND, stmts=bstm, term={"t": "goto", "succ": [bo], "sp": sp})
    res = {"l": lo, "p": []}
    succ = t["succ"][0]

    def const_bool(v):
        return {"rv": "use", "ops": [{"k": "const", "ty": "bool", "int": v, "bits": 8}]}
    none_rhs = {"rv": "agg", "adt": "std::option::Option", "variant": "None", "vidx": 0, "ops": []}
    if kind == "for_each":
        retb = dict(mk, id=RET, stmts=[], term={"t": "goto", "succ": [H], "sp": sp})
        exitb = dict(mk, id=EXITN, stmts=[], term={"t": "goto", "succ": [succ], "sp": sp})
        foundb = dict(mk, id=FOUND, stmts=[], term={"t": "goto", "succ": [succ], "sp": sp})
    elif kind == "find_map":
        retb = dict(mk, id=RET, stmts=[{"lhs": {"l": d2loc, "p": []}, "rhs": {"rv": "discr", "pl": res}, "sp": sp}],
                    term={"t": "switch", "discr": {"k": "move", "pl": {"l": d2loc, "p": []}}, "cases": [[1, FOUND]], "otherwise": H, "sp": sp})
        exitb = dict(mk, id=EXITN, stmts=[{"lhs": t["dest"], "rhs": none_rhs, "sp": sp}], term={"t": "goto", "succ": [succ], "sp": sp})
        foundb = dict(mk, id=FOUND, stmts=[{"lhs": t["dest"], "rhs": {"rv": "use", "ops": [{"k": "move", "pl": res}]}, "sp": sp}], term={"t": "goto", "succ": [succ], "sp": sp})
    elif kind == "find":
        retb = dict(mk, id=RET, stmts=[], term={"t": "switch", "discr": {"k": "move", "pl": res}, "cases": [[0, H]], "otherwise": FOUND, "sp": sp})
        exitb = dict(mk, id=EXITN, stmts=[{"lhs": t["dest"], "rhs": none_rhs, "sp": sp}], term={"t": "goto", "succ": [succ], "sp": sp})
        foundb = dict(mk, id=FOUND, stmts=[{"lhs": t["dest"], "rhs": {"rv": "agg", "adt": "std::option::Option", "variant": "Some", "vidx": 1,
                                                                      "ops": [{"k": "move", "pl": {"l": itloc, "p": []}}]}, "sp": sp}], term={"t": "goto", "succ": [succ], "sp": sp})
    elif kind == "any":
        retb = dict(mk, id=RET, stmts=[], term={"t": "switch", "discr": {"k": "move", "pl": res}, "cases": [[0, H]], "otherwise": FOUND, "sp": sp})
        exitb = dict(mk, id=EXITN, stmts=[{"lhs": t["dest"], "rhs": const_bool(0), "sp": sp}], term={"t": "goto", "succ": [succ], "sp": sp})
        foundb = dict(mk, id=FOUND, stmts=[{"lhs": t["dest"], "rhs": const_bool(1), "sp": sp}], term={"t": "goto", "succ": [succ], "sp": sp})
    else:  # all
        retb = dict(mk, id=RET, stmts=[], term={"t": "switch", "discr": {"k": "move", "pl": res}, "cases": [[0, FOUND]], "otherwise": H, "sp": sp})
        exitb = dict(mk, id=EXITN, stmts=[{"lhs": t["dest"], "rhs": const_bool(1), "sp": sp}], term={"t": "goto", "succ": [succ], "sp": sp})
        foundb = dict(mk, id=FOUND, stmts=[{"lhs": t["dest"], "rhs": const_bool(0), "sp": sp}], term={"t": "goto", "succ": [succ], "sp": sp})
    b["term"] = {"t": "goto", "succ": [H], "sp": sp, "expanded_call": cal}
    fn.blocks.extend(new)
    fn.blocks.extend([hb, hsb, bindb, retb, exitb, foundb])
    fn.vars = list(fn.vars) + [[nm_, l + lo] for nm_, l in g.vars]
    return True


def inline_into(fn, callee_of, eligible, depth=0, expander=None):
    """returns number of call sites inlined into fn (mutates fn.blocks / fn.locals in place)"""
    n = 0
    i = 0
    while i < len(fn.blocks):
        b = fn.blocks[i]
        i += 1
        t = b["term"]
        if t["t"] != "call" or b.get("inl_depth", 0) >= MAX_DEPTH:
            continue
        if expander is not None and expander(fn, b):
            n += 1
            continue
        g = callee_of(t)
        if g is None or g is fn or not eligible(g) or len(g.blocks) > MAX_BLOCKS:
            continue
        diverges = not t.get("succ")
        if diverges and any(x["term"]["t"] == "return" for x in g.blocks if not x["cleanup"]):
            continue
        lo = len(fn.locals)
        bo = len(fn.blocks)
        fn.locals.extend(g.locals)
        new = [_map_block(x, lo, bo) for x in g.blocks]
        ret_id = bo + len(new)
        d = b.get("inl_depth", 0) + 1
        for nb in new:
            nb["inl_depth"] = d
            nb["inl_from"] = g.name
            if nb["term"]["t"] == "return":
                nb["term"] = {"t": "goto", "succ": [ret_id], "sp": nb["term"].get("sp") or t.get("sp")}
        sp = t.get("sp")
        # a helper that never returns (`fn no_such_column(..) -> !`) has no continuation: its body simply ends in its own panic
        retb = {"id": ret_id, "cleanup": False, "inl": True, "inl_depth": b.get("inl_depth", 0), "inl_from": g.name,
                "stmts": [] if diverges else [{"lhs": t["dest"], "rhs": {"rv": "use", "ops": [{"k": "move", "pl": {"l": lo, "p": []}}]}, "sp": sp}],
                "term": {"t": "unreachable", "sp": sp} if diverges else {"t": "goto", "succ": [t["succ"][0]], "sp": sp}}
        if getattr(g, "closure_call", False):
            # `f(x, y)` on a local closure: MIR passes (&closure, (x, y)); the closure body takes the environment and then each argument on its own
            b["stmts"].append({"lhs": {"l": lo + 1, "p": []}, "rhs": {"rv": "use", "ops": [t["args"][0]]}, "sp": sp})
            tup = t["args"][1] if len(t["args"]) > 1 else None
            for k in range(g.argc - 1):
                if tup is None or not tup.get("pl"):
                    break
                o = {"k": "copy", "pl": {"l": tup["pl"]["l"], "p": list(tup["pl"]["p"]) + [{"f": k, "n": None}]}}
                b["stmts"].append({"lhs": {"l": lo + 2 + k, "p": []}, "rhs": {"rv": "use", "ops": [o]}, "sp": sp})
        else:
            for k, a in enumerate(t["args"]):
                b["stmts"].append({"lhs": {"l": lo + 1 + k, "p": []}, "rhs": {"rv": "use", "ops": [a]}, "sp": sp})
        b["term"] = {"t": "goto", "succ": [bo], "sp": sp, "inlined_call": g.name}
        fn.blocks.extend(new)
        fn.blocks.append(retb)
        fn.vars = list(fn.vars) + [[nm, l + lo] for nm, l in g.vars]
        for c in g.closures:
            if c not in fn.closures:
                fn.closures.append(c)
        n += 1
    if n:
        fn._preds = None
        fn._succ = None
    return n


def run(prog, ws=("msi", "msi_ffi")):
    """inline unknown same-workspace helpers into every analysed function; returns {fn name: [helpers inlined]}"""
    prog.renamed = normalise_renames(prog, ws) if ws == ("msi", "msi_ffi") else {}
    if ws == ("msi", "msi_ffi"):
        prog.renamed.update(normalise_fields_and_consts(prog))
    known = load_known()

    def eligible(g):
        return g.crate in ws and g.kind in ("Fn", "AssocFn") and g.name not in known and g.impl_trait is None and not recursive(g)

    rec_cache = {}

    def recursive(g):
        if g.id in rec_cache:
            return rec_cache[g.id]
        seen = set()
        st = [g]
        r = False
        while st and not r:
            x = st.pop()
            for u in [x] + list(x.closures):
                for _, t in u.calls():
                    h = prog.callee_fn(t)
                    if h is None or h.crate not in ws:
                        continue
                    if h is g:
                        r = True
                        break
                    if h.name in known:
                        # a cycle that passes through a known (never inlined) function ends there: the helper's body, inlined into that
                        # function, calls it back as an ordinary call
                        continue
                    if h.id not in seen:
                        seen.add(h.id)
                        st.append(h)
        rec_cache[g.id] = r
        return r

    report = {}
    pristine = {}
    targets = [f for f in prog.fns.values() if f.crate in ws]
    helpers = [f for f in targets if eligible(f)]
    direct = any(re.search(r"ops::(Fn::call|FnMut::call_mut|FnOnce::call_once)$", t.get("callee") or "") and (prog.callee_fn(t) is not None and prog.callee_fn(t).kind == "Closure")
                 for f in targets for _, t in f.calls())
    combs = any(re.search(k, t.get("callee") or "") for f in targets for _, t in f.calls() for k in list(COMBINATORS) + list(ITER_COMBINATORS))
    if not helpers and not direct and not combs:
        return report
    for f in targets:
        pristine[f.id] = (copy.deepcopy(f.blocks), list(f.locals), list(f.vars), list(f.closures))

    class View:
        pass

    def pristine_view(g, closure_call=False):
        v = View()
        v.blocks, v.locals, v.vars, v.closures = pristine[g.id]
        v.name = g.name
        v.argc = g.argc
        v.closure_call = closure_call
        return v

    called_closures = set()

    def callee_view(t):
        g = prog.callee_fn(t)
        if g is None or g.id not in pristine:
            return None
        if eligible(g):
            return pristine_view(g)
        # a local closure invoked directly (`let key_of = |row| ..; key_of(r)`): its body belongs to the function that calls it
        if g.kind == "Closure" and g.crate in ws and re.search(r"ops::(Fn::call|FnMut::call_mut|FnOnce::call_once)$", t.get("callee") or "") and \
                len(t["args"]) == 2 and not any(cname_self(tt) == g.name for _, tt in g.calls()):
            called_closures.add(g.id)
            return pristine_view(g, closure_call=True)
        return None

    closures_by_id = {g.id: g for g in targets if g.kind == "Closure"}
    expanded = set()

    def expander(fn_, b_):
        def view_of(c):
            if c.id not in pristine or any(cname_self(tt) == c.name for _, tt in c.calls()):
                return None
            return pristine_view(c, closure_call=True)
        t_ = b_["term"]
        c_, _l = _closure_of_operand(fn_, t_["args"][-1], closures_by_id) if t_["t"] == "call" and t_["args"] else (None, None)
        if expand_combinator(fn_, b_, view_of, closures_by_id) or (EXPAND_ITER and expand_iter_combinator(fn_, b_, view_of, closures_by_id)):
            if c_ is not None:
                expanded.add(c_.id)
            return True
        return False

    def cname_self(tt):
        h = prog.callee_fn(tt)
        return h.name if h is not None else None

    # iterate: inline_into handles nesting by re-scanning appended blocks (depth-bounded)
    for f in targets:
        n = inline_into(f, callee_view, lambda v: True, expander=expander)
        if n:
            report[f.name] = sorted({b.get("inl_from") for b in f.blocks if b.get("inl_from")})
    prog.raw = pristine
    # helpers whose every call site was inlined are now represented inside their callers: drop their stand-alone bodies so that
    # inventories and per-function rules do not see the same statements twice (or in a function no rule knows)
    still = set()
    for f in prog.fns.values():
        for _, t in f.calls():
            g = prog.callee_fn(t)
            if g is not None:
                still.add(g.id)
            for a in t["args"]:
                # a function handed over as a value (`starts_with(is_identifier_start)`)
                if a.get("k") == "const" and a.get("fnid") in prog.fns:
                    still.add(a["fnid"])
        for b in f.blocks:
            for st in b["stmts"]:
                op = st["rhs"].get("ops", [])
                for o in op:
                    if o.get("k") == "const" and o.get("fnid") in prog.fns:
                        still.add(o["fnid"])
    prog.removed_helpers = []
    # a closure whose every use was expanded or inlined is represented inside its user: it is still *constructed* there (the aggregate statement stays), which
    # is not a use of its body
    for h in helpers + [prog.fns[i] for i in (called_closures | expanded) if i in prog.fns]:
        if h.id not in still:
            prog.removed_helpers.append(h.name)
            del prog.fns[h.id]
            prog.by_name.pop(h.name, None)
    for f in prog.fns.values():
        if any(c.id not in prog.fns for c in f.closures):
            f.closures = [c for c in f.closures if c.id in prog.fns]
    return report


def expand_view(prog, f):
    """a copy of f in which `iter.for_each / find_map / find / any / all (closure)` are written out as loops over Iterator::next with the closure body in
    place (and Option/Result combinators as matches). Rules whose anchors live in such a closure (`entries.find_map(|e| ..)`, `chars.for_each(|c| ..)`)
    fall back to this view; the program itself keeps the combinator forms the other rules read."""
    from .facts import Fn
    raw = copy.deepcopy(f.raw)
    raw["blocks"] = copy.deepcopy(f.blocks)
    raw["locals"] = list(f.locals)
    g = Fn(f.crate, raw)
    g.owner, g.closures = f.owner, list(f.closures)
    g.vars = list(f.vars)
    closures_by_id = {c.id: c for c in prog.fns.values() if c.kind == "Closure"}

    class View:
        pass

    def view_of(c):
        v = View()
        v.blocks, v.locals, v.vars, v.closures = copy.deepcopy(c.blocks), list(c.locals), list(c.vars), list(c.closures)
        v.name, v.argc, v.closure_call = c.name, c.argc, True
        return v

    def expander(fn_, b_):
        return expand_combinator(fn_, b_, view_of, closures_by_id) or expand_iter_combinator(fn_, b_, view_of, closures_by_id)
    inline_into(g, lambda t: None, lambda v: False, expander=expander)
    g._succ = None
    g._preds = None
    return g
