"""Tiny symbolic canonicaliser for MIR operands + branch facts.

val(op) gives a canonical string for an operand so that two reads of "the same thing"
(e.g. self.strings.len() in a guard and the Vec indexed later) compare equal.
Mutation of the underlying place between guard and use is NOT tracked (stated assumption:
guards and uses in this code base are adjacent; every use of this module names the guard found)."""
import re
from . import cfg
from .flow import DefUse, is_place

PURE = (
    "::len", "::is_empty", "::as_str", "::as_ref", "::as_mut", "::deref", "::deref_mut", "::borrow",
    "::clone", "::chars", "::count", "::iter", "::into_iter", "::as_slice", "::as_bytes",
    "StringRef::index", "StringRef::number", "::columns", "::coltype", "::name", "::unwrap",
    "::primary_key_indices", "::is_some", "::is_none", "::is_null", "::from", "::into",
    "::is_ascii_digit", "::is_ascii_uppercase", "::is_ascii_lowercase", "::contains", "::contains_key",
    "::as_secs", "::subsec_nanos", "::starts_with", "::ends_with", "::is_valid", "::has_column",
    "::index_for_column_name", "::encode_utf16", "::is_stream", "::exists", "::long_string_refs",
    "::is_modified", "::codepage", "Option::<T>::take", "::parse_str", "::get_column", "::eq", "::ne", "::to_string", "precedence", "::id", "::width", "::get", "::precedence", "::is_char_boundary",
    "::checked_sub", "::checked_add", "::is_ascii",
)


class Sym:
    def __init__(self, prog, fn):
        self.prog = prog
        self.fn = fn
        self.du = DefUse(fn)
        self._memo = {}
        self._flag_busy = set()
        self._dom = None
        self._facts = {}

    # ------------------------------------------------------------------ values
    def val(self, op, depth=0):
        if "k" in op:
            if op["k"] == "const":
                if "int" in op:
                    return "c:%d" % op["int"]
                if "str" in op:
                    return "s:%r" % op["str"]
                if "fn" in op:
                    return "fn:%s" % op["fn"]
                if "static" in op:
                    return "static:%s" % op["static"]
                txt = op.get("txt", "?")
                if "::promoted[" in txt:
                    pf = self.prog.promoted.get(self.fn.crate + "::" + txt) or self.prog.promoted.get(self.fn.name + txt[txt.rindex("::promoted["):])
                    if pf is not None and depth < 20:
                        ps = Sym(self.prog, pf)
                        return ps.local(0, depth + 1)
                return "k:%s" % txt
            if not is_place(op):
                return "?"
            return self.place(op["pl"], depth)
        return self.place(op, depth)

    def _ok_origin(self, branch_block):
        """for `x?` at branch_block whose operand is a local with several definitions (the return place of an inlined helper):
        the one definition that can be Ok/Some (an `Ok(..)` aggregate or a fallible call), when every other definition is an
        Err/None aggregate or a from_residual result. On the Continue edge the value came from that definition."""
        t = self.fn.blocks[branch_block]["term"]
        if t["t"] != "call" or not t["args"]:
            return None
        if len(self.du.whole_defs(t["args"][0].get("pl", {}).get("l", -1))) == 1 and not t["args"][0].get("pl", {}).get("p"):
            d = self.du.whole_defs(t["args"][0]["pl"]["l"])[0]
            if d[2] == "call":
                return None
        oks = []
        for o in self.du.origins(t["args"][0]):
            if o[0] == "agg":
                v = o[2]["rhs"].get("variant")
                if v in ("Ok", "Some"):
                    oks.append(o)
                elif v in ("Err", "None"):
                    continue
                else:
                    return None
            elif o[0] == "call":
                if (o[2].get("callee") or "").endswith("from_residual"):
                    continue
                oks.append(o)
            else:
                return None
        if len(oks) == 1 and not (oks[0][3] if len(oks[0]) > 3 else None):
            return oks[0]
        return None

    def place(self, pl, depth=0):
        pp = pl["p"]
        if len(pp) >= 2 and isinstance(pp[0], dict) and "dc" in pp[0] and pp[0].get("n") == "Continue" and isinstance(pp[1], dict) and pp[1].get("f") == 0 and depth < 25:
            ds = self.du.whole_defs(pl["l"])
            if len(ds) == 1 and ds[0][2] == "call" and re.search(r"Try>?::branch$", ds[0][3].get("callee") or ""):
                o = self._ok_origin(ds[0][0])
                if o is not None and o[0] == "agg" and o[2]["rhs"].get("ops"):
                    inner = self.val(o[2]["rhs"]["ops"][0], depth + 1)
                    return self._project(inner, pp[2:], depth)
        return self._project(self.local(pl["l"], depth), pp, depth)

    def _project(self, base, proj, depth):
        for e in proj:
            if e == "*":
                ms = re.fullmatch(r"<std::string::String as std::ops::Deref>::deref\(&(.*)\)", base)
                if ms and ms.group(1).count("(") == ms.group(1).count(")"):
                    # `&*s.deref()` names the same text as `&s` (the String seen as a str)
                    base = ms.group(1)
                elif base.startswith("&"):
                    base = base[1:]
                else:
                    base = "*" + base
            elif isinstance(e, dict):
                if "f" in e:
                    # tuples, and the environment of a closure whose body was inlined at a direct call (`agg{captures}`)
                    el = _tuple_elem(base, e["f"]) if base.startswith(("tuple{", "agg{")) and base.endswith("}") else None
                    if el is not None:
                        base = el
                        continue
                    # value half of a checked operation on two constants
                    mc = re.fullmatch(r"\(c:(-?\d+) (Add|Sub|Mul)! c:(-?\d+)\)", base) if e["f"] == 0 else None
                    if mc:
                        x_, y_ = int(mc.group(1)), int(mc.group(3))
                        base = "c:%d" % {"Add": x_ + y_, "Sub": x_ - y_, "Mul": x_ * y_}[mc.group(2)]
                        continue
                    base = "%s.%s" % (base, e["n"] or e["f"])
                elif "dc" in e:
                    # downcast of an aggregate built on this path (`Some((a, b))` then `if let Some((x, y))`): its fields are the aggregate's operands
                    mv = re.match(r"^[A-Za-z_][\w:]*::(\w+)\{", base)
                    if mv and base.endswith("}") and mv.group(1) == (e["n"] or "") and not base.startswith(("tuple{", "agg{")):
                        base = "tuple{" + base[mv.end():-1] + "}"
                        continue
                    base = "%s@%s" % (base, e["n"] or e["dc"])
                elif "idx" in e:
                    base = "%s[%s]" % (base, self.local(e["idx"], depth + 1))
                elif "cidx" in e:
                    base = "%s[%d]" % (base, e["cidx"])
                else:
                    base += "[?]"
            else:
                base += "[?]"
        return base

    def local(self, l, depth=0):
        if l in self._memo:
            return self._memo[l]
        if depth > 30:
            return "_%d" % l
        self._memo[l] = "_%d" % l  # cycle guard
        r = self._local(l, depth)
        self._memo[l] = r
        return r

    def _local(self, l, depth):
        fn = self.fn
        ds = self.du.whole_defs(l)
        if 1 <= l <= fn.argc and not ds:
            return "p%d" % l
        if len(ds) != 1:
            return "_%d" % l
        return self._def_val(ds[0], l, depth)

    def _def_val(self, d, l, depth):
        """symbolic value stored by one whole definition `d` of local l"""
        fn = self.fn
        (b, i, kind, payload) = d
        if kind == "call":
            name = payload.get("resolved") or payload.get("callee") or "?"
            cal = payload.get("callee") or name
            mconv = re.search(r"convert::(?:num::)?<impl std::convert::From<(\w+)> for (\w+)>::from$", name)
            if mconv and len(payload["args"]) == 1:
                # lossless integer widening: same value as an `as` cast
                return "(%s as %s)" % (self.val(payload["args"][0], depth + 1), mconv.group(2))
            if any(name.endswith(s) or cal.endswith(s) or (s + "::<") in name for s in PURE):
                argl = [self.val(a, depth + 1) for a in payload["args"]]
                shown = _short(cal if "::Index" in cal else name)
                # a slice method reached through Vec's Deref is the Vec method of the same name on the Vec itself
                if shown.startswith("core::slice::<impl [T]>::") and argl:
                    md = re.fullmatch(r"&\*?<std::vec::Vec<T, A> as std::ops::Deref(Mut)?>::deref(_mut)?\((.*)\)", argl[0])
                    if md and shown.rsplit("::", 1)[-1] in ("len", "is_empty"):
                        shown = "std::vec::Vec::<T, A>::" + shown.rsplit("::", 1)[-1]
                        argl[0] = md.group(3)
                return "%s(%s)" % (shown, ",".join(argl))
            return "call@%d:%s" % (b, _short(name))
        rhs = payload["rhs"]
        rv = rhs["rv"]
        if rv == "use":
            return self.val(rhs["ops"][0], depth + 1)
        if rv in ("ref", "rawptr"):
            p = self.place(rhs["pl"], depth + 1)
            return "&" + p
        if rv == "cast":
            return "(%s as %s)" % (self.val(rhs["ops"][0], depth + 1), rhs["to"])
        if rv == "bin":
            op = rhs["op"].replace("WithOverflow", "!").replace("Unchecked", "")
            a_, b_ = self.val(rhs["ops"][0], depth + 1), self.val(rhs["ops"][1], depth + 1)
            ma, mb = re.fullmatch(r"c:(-?\d+)", a_), re.fullmatch(r"c:(-?\d+)", b_)
            if ma and mb and op in ("Add", "Sub", "Mul", "Shl", "Shr", "BitAnd", "BitOr", "BitXor") and not rhs["op"].endswith("WithOverflow"):
                # arithmetic on two constants (`BASE + COUNT` with named constants): the constant
                x_, y_ = int(ma.group(1)), int(mb.group(1))
                if op not in ("Shl", "Shr") or 0 <= y_ < 64:
                    return "c:%d" % {"Add": x_ + y_, "Sub": x_ - y_, "Mul": x_ * y_, "Shl": x_ << y_ if op == "Shl" else 0, "Shr": x_ >> y_ if op == "Shr" else 0,
                                     "BitAnd": x_ & y_, "BitOr": x_ | y_, "BitXor": x_ ^ y_}[op]
            return "(%s %s %s)" % (a_, op, b_)
        if rv == "un":
            return "(%s %s)" % (rhs["op"], self.val(rhs["ops"][0], depth + 1))
        if rv == "discr":
            return "discr(%s)" % self.place(rhs["pl"], depth + 1)
        if rv == "agg":
            tag = rhs.get("adt") and "%s::%s" % (rhs["adt"], rhs.get("variant")) or ("tuple" if rhs.get("tuple") else "agg")
            return "%s{%s}" % (tag, ",".join(self.val(o, depth + 1) for o in rhs["ops"]))
        return "_%d" % l

    # ------------------------------------------------------------------ facts
    def dom(self):
        if self._dom is None:
            self._dom = cfg.dominators(self.fn)
        return self._dom

    def _two_variant_discr(self, op):
        """the switch operand is the discriminant of an Option / Result / ControlFlow / Poll value"""
        pl = op.get("pl")
        if not pl or pl["p"]:
            return False
        ds = self.du.whole_defs(pl["l"])
        if len(ds) != 1 or ds[0][2] != "stmt" or ds[0][3]["rhs"]["rv"] != "discr":
            return False
        src = ds[0][3]["rhs"]["pl"]
        ty = self.fn.locals[src["l"]] if not src["p"] else None
        if ty is None:
            # a field/deref path: look the type up through the symbolic value when it names a call result
            v = self.place(src)
            return bool(re.search(r"(Option::<T>::|Result::<T, E>::|::get\(|::take\(|Try>::branch|::find\(|::position\(|::next\)?$|binary_search)", v))
        return re.match(r"(std|core)::(option::Option|result::Result|ops::ControlFlow|task::Poll)<", ty.lstrip("&").replace("mut ", "")) is not None

    def edge_fact(self, b, target):
        """fact implied by taking edge b->target of a switch: (expr, op, value) or None"""
        t = self.fn.blocks[b]["term"]
        if t["t"] != "switch":
            return None
        e = self.val(t["discr"])
        cases = t["cases"]
        if target == t["otherwise"] and all(c[1] != target for c in cases):
            vals = tuple(sorted(c[0] for c in cases))
            if len(vals) == 1 and vals[0] in (0, 1) and self._two_variant_discr(t["discr"]):
                return (e, "==", 1 - vals[0])  # Option / Result / ControlFlow: "not variant k" is "the other variant"
            return (e, "notin", vals)
        vs = [c[0] for c in cases if c[1] == target]
        if len(vs) == 1 and target != t["otherwise"]:
            return (e, "==", vs[0])
        if len(vs) > 1 and target != t["otherwise"]:
            return (e, "in", tuple(sorted(vs)))
        return None

    def facts_at(self, block):
        """facts that hold on entry to `block` from dominating single-pred switch edges"""
        if block in self._facts:
            return self._facts[block]
        dom = self.dom()
        preds = self.fn.preds()
        out = []
        if block in dom:
            for d in sorted(dom[block], key=lambda x: (len(dom[x]), x)):
                t = self.fn.blocks[d]["term"]
                if t["t"] != "switch":
                    continue
                for s in set(self.fn.succs()[d]):
                    if s == d:
                        continue
                    if (s == block or s in dom[block]) and preds[s] == [d]:
                        f = self.edge_fact(d, s)
                        if f:
                            out.append(f + (d,))
        self._facts[block] = out
        # `helper(..)?` with the helper inlined: on the Continue edge the value is the helper's Ok result, so the tests that guarded
        # the construction of that Ok hold here as well
        out2 = []
        for f in out:
            m = re.fullmatch(r"discr\(call@(\d+):<std::(result::Result|option::Option)<T(, E)?> as std::ops::Try>::branch\)", f[0])
            if m and f[1] == "==" and f[2] == 0:
                o = self._ok_origin(int(m.group(1)))
                if o is not None and o[1] != block and o[1] not in dom.get(block, ()):
                    have = {(x[0], x[1], x[2]) for x in out} | {(x[0], x[1], x[2]) for x in out2}
                    for g in self.facts_at(o[1]):
                        if (g[0], g[1], g[2]) not in have:
                            out2.append(g)
                            have.add((g[0], g[1], g[2]))
            out2.append(f)
        # a flag local that is assigned only constants (`let r = a || b || c;`, the result of an inlined predicate helper): on the edge
        # where the flag has value v, and exactly one assignment stores v, the tests that guarded THAT assignment hold as well
        out3 = []
        for f in out2:
            out3.append(f)
            m = re.fullmatch(r"_(\d+)(?:\.(\d+))?", f[0])
            if not m:
                continue
            fld = int(m.group(2)) if m.group(2) is not None else None
            want = None
            if f[1] == "==" and f[2] in (0, 1):
                want = f[2]
            elif f[1] == "notin" and f[2] in ((0,), (1,)):
                want = 1 - f[2][0]
            if want is None:
                continue
            ds = self.du.whole_defs(int(m.group(1)))
            vals, other = [], []
            for d_ in ds:
                (db, di, kind, payload) = d_
                if fld is not None:
                    # a flag carried in a tuple (`let (value, is_before) = match .. { A => (x, true), B => (y, false) }`)
                    ops_ = payload["rhs"].get("ops", []) if kind == "stmt" and payload["rhs"]["rv"] == "agg" else []
                    o = ops_[fld] if fld < len(ops_) else {}
                else:
                    o = payload["rhs"]["ops"][0] if kind == "stmt" and payload["rhs"]["rv"] == "use" else {}
                if o.get("k") == "const" and "int" in o:
                    vals.append((o["int"], db))
                else:
                    other.append(d_)
            if not vals or len(other) > 1:
                continue
            src = [db for (v, db) in vals if v == want]
            extra = None
            if not src and len(other) == 1 and fld is None:
                # `a || b || last`: the flag is `true` on the early exits and the value of `last` otherwise; it is false only as the value of `last`
                src = [other[0][0]]
                extra = (self._def_val(other[0], int(m.group(1)), 0), "==", want, other[0][0])
            elif other:
                continue
            if len(src) != 1 or src[0] == block or (src[0], block) in self._flag_busy:
                continue
            self._flag_busy.add((src[0], block))
            try:
                have = {(x[0], x[1], x[2]) for x in out3}
                for g in self.facts_at(src[0]) + ([extra] if extra else []):
                    if (g[0], g[1], g[2]) not in have:
                        out3.append(g)
                        have.add((g[0], g[1], g[2]))
            finally:
                self._flag_busy.discard((src[0], block))
        self._facts[block] = out3
        return out3

    def bool_facts_at(self, block):
        """normalised boolean facts: list of (expr_string, truth, guard_block)"""
        out = []
        for (e, op, v, d) in self.facts_at(block):
            truth = None
            if e.startswith("discr("):
                out.append((e, (op, v), d))
                continue
            if op == "==" and v in (0, 1):
                truth = bool(v)
            elif op == "notin" and v == (0,):
                truth = True
            elif op == "notin" and v == (1,):
                truth = False
            if truth is None:
                out.append((e, (op, v), d))
                continue
            # strip Not
            while e.startswith("(Not ") and e.endswith(")"):
                e = e[5:-1]
                truth = not truth
            out.append((e, truth, d))
        return out


def _short(name):
    return name


def _tuple_elem(base, k):
    """k-th element of a symbolic tuple aggregate 'tuple{a,b,...}' (top-level commas only)"""
    inner = base[base.index("{") + 1:-1]
    parts, depth, cur, prev = [], 0, "", ""
    for ch in inner:
        if ch in "([{<":
            depth += 1
        elif ch in ")]}" or (ch == ">" and prev != "-"):
            depth -= 1
        if ch == "," and depth == 0:
            parts.append(cur)
            cur = ""
        else:
            cur += ch
        prev = ch
    parts.append(cur)
    try:
        return parts[int(k)]
    except (ValueError, IndexError, TypeError):
        return None


def split_bin(e):
    """'(a OP b)' -> (a, OP, b) or None; handles nested parens."""
    if not (e.startswith("(") and e.endswith(")")):
        return None
    inner = e[1:-1]
    depth = 0
    toks = []
    cur = ""
    prev = ""
    for ch in inner:
        if ch in "([{<":
            depth += 1
        elif ch in ")]}" or (ch == ">" and prev != "-"):
            depth -= 1
        prev = ch
        if ch == " " and depth == 0:
            toks.append(cur)
            cur = ""
        else:
            cur += ch
    toks.append(cur)
    if len(toks) == 3:
        return toks[0], toks[1], toks[2]
    # 'x as T' casts have 3+ tokens too: (v as T)
    return None
