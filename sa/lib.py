"""Shared helpers for rule modules."""
import re

from .flow import DefUse, is_place


def cname(prog, t):
    """canonical callee name: crate-qualified path of the body when it is in the analysed crates,
    else the resolved external path (or the trait-method path when unresolved)."""
    g = prog.callee_fn(t)
    if g is not None:
        return g.name
    return t.get("resolved") or t.get("callee") or "?"


def tname(t):
    """trait-method (written) path of a call"""
    return t.get("callee") or "?"


def calls(prog, fn, pat, by_trait=False):
    """(block, term) for calls in fn whose canonical (or trait) name matches regex pat"""
    rx = re.compile(pat)
    out = []
    for b, t in fn.calls():
        n = tname(t) if by_trait else cname(prog, t)
        if rx.search(n) or (not by_trait and rx.search(tname(t))):
            out.append((b, t))
    return out


def unit_calls(prog, fn, pat):
    """calls in fn and all closures it creates: (fn_or_closure, block, term)"""
    out = []
    for f in prog.unit(fn):
        for b, t in calls(prog, f, pat):
            out.append((f, b, t))
    return out


def closure_sites(prog, fn):
    """(block, closure Fn) for every closure aggregate built in fn"""
    out = []
    for b in fn.blocks:
        if b["cleanup"]:
            continue
        for s in b["stmts"]:
            r = s["rhs"]
            if r["rv"] == "agg" and r.get("cid") in prog.fns:
                out.append((b["id"], prog.fns[r["cid"]]))
    return out


def error_kind(fn, du, t):
    """ErrorKind variant name of an io::Error::new call (first arg) or None"""
    a = t["args"][0]
    if a.get("k") == "const":
        return a.get("txt") or str(a.get("int"))
    for o in du.origins(a):
        if o[0] == "agg":
            r = o[2]["rhs"]
            if (r.get("adt") or "").endswith("ErrorKind"):
                return r.get("variant")
        if o[0] == "const":
            return o[1].get("txt")
    return None


def error_sites(prog, fn):
    """(block, term, kind, macro) for io::Error::new calls"""
    du = DefUse(fn)
    out = []
    for b, t in fn.calls():
        if (t.get("callee") or "") == "std::io::Error::new":
            sp = t["sp"]
            out.append((b, t, error_kind(fn, du, t), sp.get("mac") if sp.get("exp") else ""))
    return out


def returns_io_result(fn):
    r = fn.locals[0]
    return "std::result::Result<" in r and "std::io::Error" in r


def const_strs_feeding(prog, fn, op, du=None, depth=0, seen=None):
    """constant strings in the backward slice of an operand (through call arguments)"""
    du = du or DefUse(fn)
    seen = seen if seen is not None else set()
    out = []
    if op.get("k") == "const":
        if "str" in op:
            out.append(op["str"])
        return out
    if not is_place(op) or depth > 12:
        return out
    l = op["pl"]["l"]
    if l in seen:
        return out
    seen.add(l)
    for d in du.defs.get(l, []):
        if d[2] == "call":
            for a in d[3]["args"]:
                out += const_strs_feeding(prog, fn, a, du, depth + 1, seen)
        else:
            rhs = d[3]["rhs"]
            for o in rhs.get("ops", []):
                out += const_strs_feeding(prog, fn, o, du, depth + 1, seen)
            if "pl" in rhs:
                out += const_strs_feeding(prog, fn, {"k": "copy", "pl": {"l": rhs["pl"]["l"], "p": []}}, du, depth + 1, seen)
    return out


def short(name):
    """drop crate/module prefix for messages: msi::internal::query::Insert::exec -> Insert::exec"""
    n = name
    m = re.match(r"^(?:\w+::)?<(.+) as (.+)>::(\w+)(.*)$", n)
    if m:
        def last(x):
            x = re.sub(r"<.*", "", x)
            return x.rsplit("::", 1)[-1]
        return "<%s as %s>::%s%s" % (last(m.group(1)), last(m.group(2)), m.group(3), m.group(4))
    for _ in range(4):
        n = re.sub(r"(::)?<[^<>]*>", "", n)
    parts = [x for x in n.split("::") if x]
    return "::".join(parts[-2:]) if len(parts) >= 2 else n


def field_assigns(fn, field):
    """(block, stmt) assigning to a place whose last named field is `field`"""
    out = []
    for b in fn.blocks:
        if b["cleanup"]:
            continue
        for s in b["stmts"]:
            names = [e["n"] for e in s["lhs"]["p"] if isinstance(e, dict) and "f" in e]
            if names and names[-1] == field:
                out.append((b["id"], s))
    return out


def const_assigned(stmt):
    r = stmt["rhs"]
    if r["rv"] == "use" and r["ops"][0].get("k") == "const":
        return r["ops"][0].get("int")
    return None


def symcalls(prog, f, S=None):
    """[(block, canonical callee, [symbolic args], term)] for every call in f"""
    from .sym import Sym
    S = S or Sym(prog, f)
    out = []
    for b, t in f.calls():
        out.append((b, cname(prog, t), [S.val(a) for a in t["args"]], t))
    return out


def has_fact(S, block, pattern, truth):
    """a dominating branch fact whose expression matches regex `pattern` with the given truth
    (truth may be a bool or an (op, value) tuple for integer/discriminant switches)"""
    rx = re.compile(pattern)
    for (e, tr, g) in S.bool_facts_at(block):
        if rx.search(e) and tr == truth:
            return True
    return False


def call_of(S, v):
    """for a symbolic value naming an opaque call result ('...call@N:callee...') return (callee, [symbolic args]) of the LAST such call"""
    m = re.findall(r"call@(\d+):", v)
    if not m:
        return None, []
    t = S.fn.blocks[int(m[-1])]["term"]
    if t["t"] != "call":
        return None, []
    return (t.get("resolved") or t.get("callee") or "?"), [S.val(a) for a in t["args"]]


def deep_strs(S, v, depth=0):
    """all string literals in a symbolic value, expanding opaque call results recursively"""
    out = re.findall(r"s:'([^']*)'", v)
    if depth > 8:
        return out

    def const_lits(lit, d=0):
        # the string literals of a named constant (an array of names of other constants, ...)
        if isinstance(lit, str):
            return [lit]
        if isinstance(lit, list) and d < 6:
            return [x for e in lit for x in const_lits(e, d + 1)]
        if isinstance(lit, dict) and "path" in lit and d < 6:
            k = S.prog.consts.get(S.fn.crate + "::" + lit["path"]) or S.prog.consts.get("msi::" + lit["path"])
            return const_lits(k.get("lit"), d + 1) if k else []
        return []
    for m in re.findall(r"k:([A-Za-z0-9_:]+)", v):
        k = S.prog.consts.get(S.fn.crate + "::" + m) or S.prog.consts.get("msi::" + m)
        if k is not None:
            out += const_lits(k.get("lit"))
    for m in re.findall(r"call@(\d+):", v):
        t = S.fn.blocks[int(m)]["term"]
        if t["t"] == "call":
            for a in t["args"]:
                out += deep_strs(S, S.val(a), depth + 1)
    return out


# ----------------------------------------------------------------------------- affine values and interval conditions
def affine(expr, var):
    """symbolic value -> (a, b) with value == a*var + b, or None. Understands casts, checked/unchecked Add/Sub (and `.0` of the checked tuple), constants."""
    from .sym import split_bin
    e = expr.strip()
    if e == var:
        return (1, 0)
    m = re.fullmatch(r"c:(-?\d+)", e)
    if m:
        return (0, int(m.group(1)))
    if e.endswith(".0"):
        return affine(e[:-2], var)
    sb = split_bin(e)
    if sb:
        a, op, b = sb
        if op == "as":
            return affine(a, var)
        op = op.rstrip("!")
        if op in ("Add", "Sub"):
            x, y = affine(a, var), affine(b, var)
            if x is None or y is None:
                return None
            return (x[0] + y[0], x[1] + y[1]) if op == "Add" else (x[0] - y[0], x[1] - y[1])
    m = re.fullmatch(r"\((.*) as [A-Za-z0-9_:]+\)", e)
    if m:
        return affine(m.group(1), var)
    return None


CHAR_CLASS = {"is_ascii_digit": (48, 57), "is_ascii_uppercase": (65, 90), "is_ascii_lowercase": (97, 122), "is_ascii": (0, 127)}


def interval_of(facts, var):
    """(lo, hi, excluded set) for `var` from dominating branch facts: comparisons with constants in either operand order, through
    value-preserving casts of var, char-class predicates, integer switch facts"""
    from .sym import split_bin
    lo, hi, excl = None, None, set()

    def strip(x):
        x = x.strip()
        while True:
            m = re.fullmatch(r"\((.*) as [A-Za-z0-9_:]+\)", x)
            if not m:
                break
            x = m.group(1)
        return x
    v0 = strip(var)

    def is_var(x):
        x = strip(x)
        return x == v0 or x == "&" + v0 or x == "*" + v0

    def upd(op, c):
        nonlocal lo, hi
        if op == "Lt":
            hi = c - 1 if hi is None else min(hi, c - 1)
        elif op == "Le":
            hi = c if hi is None else min(hi, c)
        elif op == "Gt":
            lo = c + 1 if lo is None else max(lo, c + 1)
        elif op == "Ge":
            lo = c if lo is None else max(lo, c)
        elif op == "Eq":
            lo = c if lo is None else max(lo, c)
            hi = c if hi is None else min(hi, c)
        elif op == "Ne":
            excl.add(c)
    SW = {"Lt": "Gt", "Le": "Ge", "Gt": "Lt", "Ge": "Le", "Eq": "Eq", "Ne": "Ne"}
    NEG = {"Lt": "Ge", "Le": "Gt", "Gt": "Le", "Ge": "Lt", "Eq": "Ne", "Ne": "Eq"}
    for (e, tr, g) in facts:
        if not isinstance(tr, bool):
            # `x.checked_sub(N)` is Some exactly when x >= N
            mcs = re.fullmatch(r"discr\(core::num::<impl u\d+>::checked_sub\((.*),c:(\d+)\)\)", e)
            if mcs and is_var(mcs.group(1)) and tr in (("==", 1), ("==", 0)):
                upd("Ge" if tr[1] == 1 else "Lt", int(mcs.group(2)))
                continue
            if is_var(e) and tr[0] in ("==", "!="):
                upd("Eq" if tr[0] == "==" else "Ne", tr[1])
            elif is_var(e) and tr[0] == "in":
                upd("Ge", min(tr[1]))
                upd("Le", max(tr[1]))
            elif is_var(e) and tr[0] == "notin":
                for c_ in tr[1]:
                    upd("Ne", c_)
            continue
        mm = re.search(r"(is_ascii_digit|is_ascii_uppercase|is_ascii_lowercase|is_ascii)\((.*)\)$", e)
        if mm and is_var(mm.group(2).lstrip("&")):
            if tr:
                upd("Ge", CHAR_CLASS[mm.group(1)][0])
                upd("Le", CHAR_CLASS[mm.group(1)][1])
            elif mm.group(1) == "is_ascii":
                upd("Ge", 128)
            continue
        sb = split_bin(e)
        if not sb:
            continue
        a, op, b = sb
        ca = re.fullmatch(r"\(?c:(-?\d+)(?: as [a-z0-9]+\))?", a.strip())
        cb = re.fullmatch(r"\(?c:(-?\d+)(?: as [a-z0-9]+\))?", b.strip())
        if is_var(a) and cb and op in SW:
            c = int(cb.group(1))
        elif is_var(b) and ca and op in SW:
            op, c = SW[op], int(ca.group(1))
        else:
            continue
        if not tr:
            op = NEG[op]
        upd(op, c)
    return lo, hi, excl


# ----------------------------------------------------------------------------- closures: captured values
def closure_caps(prog, owner, S=None):
    """{closure id: [symbolic value (in the creator's terms) of each captured operand]} for closures built directly in `owner`"""
    from .sym import Sym
    S = S or Sym(prog, owner)
    out = {}
    for b in owner.blocks:
        if b["cleanup"]:
            continue
        for s in b["stmts"]:
            r = s["rhs"]
            if r["rv"] == "agg" and r.get("cid") in prog.fns:
                out[r["cid"]] = [S.val(o) for o in r["ops"]]
    return out


def outer_view(expr, caps):
    """rewrite references to captured variables (`p1.K` with any number of derefs/refs in front) in a closure-side symbolic value
    into the creator-side value of that capture, marked «..»; by-reference captures lose their leading `&`"""
    def sub(m):
        k = int(m.group(1))
        if k < len(caps):
            return "«%s»" % caps[k].lstrip("&*")
        return m.group(0)
    return re.sub(r"[&*]*p1\.(\d+)", sub, expr)


def value_set(facts, var):
    """finite set of values `var` can have under the facts (equality / membership facts), or None when the facts do not pin it to a finite set"""
    lo, hi, ex = interval_of(facts, var)
    for (e, tr, g) in facts:
        if not isinstance(tr, bool) and tr[0] == "in" and (e.strip() == var or e.strip() == re.sub(r"^\((.*) as \w+\)$", r"\1", var)):
            return set(tr[1])
    if lo is not None and hi is not None and hi - lo <= 64:
        return {v for v in range(lo, hi + 1) if v not in ex}
    return None


# ----------------------------------------------------------------------------- lifting closure bodies into the creator's terms
_OPT_COMB = re.compile(r"Option::<T>::(is_some_and|is_none_or|map|map_or|map_or_else|and_then|filter|inspect|take_if)$")
_RES_COMB = re.compile(r"Result::<T, E>::(is_ok_and|map|map_or|map_or_else|and_then|inspect)$")
_ITER_COMB = re.compile(r"(Iterator>?::(map|filter|any|all|find|position|for_each|try_for_each|filter_map|find_map|take_while|skip_while|flat_map|fold|try_fold|inspect|rposition)|<impl \[T\]>::(sort_by_key|sort_by_cached_key|retain)|Vec::<T, A>::retain)$")


class Lifted:
    """a closure of `owner` seen from the owner: captured variables and (for known combinators) the closure's argument are rewritten into the owner's symbolic values"""

    def __init__(self, prog, owner, S, closure, caps, site_block, call_block, param):
        from .sym import Sym
        self.prog, self.owner, self.S, self.fn = prog, owner, S, closure
        self.caps, self.site_block, self.call_block, self.param = caps, site_block, call_block, param
        self.SC = Sym(prog, closure)

    def lift(self, expr):
        def sub(m):
            if m.group(1) is not None:
                k = int(m.group(1))
                return self.caps[k].lstrip("&*") if k < len(self.caps) else m.group(0)
            return self.param if self.param is not None else m.group(0)
        return re.sub(r"[&*]*\bp1\.(\d+)|[&*]*\bp2\b", sub, expr)

    def val(self, op):
        return self.lift(self.SC.val(op))

    def facts_at(self, block):
        """facts of the creator at the place the closure is used + the closure's own facts at `block`, all in creator terms"""
        outer = list(self.S.bool_facts_at(self.call_block if self.call_block is not None else self.site_block))
        inner = [(self.lift(e), tr, g) for (e, tr, g) in self.SC.bool_facts_at(block)]
        return outer + inner


def lifted_closures(prog, owner, S=None):
    from .sym import Sym
    from .flow import derived_locals
    S = S or Sym(prog, owner)
    caps = closure_caps(prog, owner, S)
    out = []
    for b in owner.blocks:
        if b["cleanup"]:
            continue
        for s in b["stmts"]:
            r = s["rhs"]
            if r["rv"] == "agg" and r.get("cid") in prog.fns and not s["lhs"]["p"]:
                c = prog.fns[r["cid"]]
                der = derived_locals(owner, {s["lhs"]["l"]})
                call_block, param = None, None
                for cb, t in owner.calls():
                    if any(a.get("pl") and a["pl"]["l"] in der for a in t["args"][1:] or []):
                        n = cname(prog, t)
                        recv = S.val(t["args"][0])
                        call_block = cb
                        if _OPT_COMB.search(n):
                            param = "%s@Some.0" % recv.lstrip("&")
                        elif _RES_COMB.search(n):
                            param = "%s@Ok.0" % recv.lstrip("&")
                        elif _ITER_COMB.search(n):
                            param = "elem(%s)" % recv
                        break
                out.append(Lifted(prog, owner, S, c, caps.get(c.id, []), b["id"], call_block, param))
    return out


def unit_comparisons(prog, f, S=None):
    """[(op, lhs, rhs, {fact expr: truth})] for every comparison in f and in the closures it builds, in f's terms"""
    from .sym import Sym
    S = S or Sym(prog, f)
    out = []
    CMP = ("Lt", "Le", "Gt", "Ge", "Eq", "Ne")
    for bl in f.blocks:
        if bl["cleanup"]:
            continue
        for s in bl["stmts"]:
            r = s["rhs"]
            if r["rv"] == "bin" and r["op"] in CMP:
                out.append((r["op"], S.val(r["ops"][0]), S.val(r["ops"][1]), {e: tr for (e, tr, g) in S.bool_facts_at(bl["id"])}))
    for L in lifted_closures(prog, f, S):
        for bl in L.fn.blocks:
            if bl["cleanup"]:
                continue
            for s in bl["stmts"]:
                r = s["rhs"]
                if r["rv"] == "bin" and r["op"] in CMP:
                    out.append((r["op"], L.val(r["ops"][0]), L.val(r["ops"][1]), {e: tr for (e, tr, g) in L.facts_at(bl["id"])}))
    return out


def exceeds_facts(facts):
    """[(expr, N, guard block)] for every fact meaning `expr > N` (N a constant), in any spelling: X > N, !(X <= N), N < X, !(N >= X); also X >= N+1 forms"""
    from .sym import split_bin
    out = []
    for (e, tr, g) in facts:
        if not isinstance(tr, bool):
            continue
        sb = split_bin(e)
        if not sb:
            continue
        a, op, b = sb
        ca = re.fullmatch(r"\(?c:(-?\d+)(?: as [a-z0-9]+\))?", a.strip())
        cb = re.fullmatch(r"\(?c:(-?\d+)(?: as [a-z0-9]+\))?", b.strip())
        NEG = {"Lt": "Ge", "Le": "Gt", "Gt": "Le", "Ge": "Lt"}
        SW = {"Lt": "Gt", "Le": "Ge", "Gt": "Lt", "Ge": "Le"}
        if op not in NEG:
            continue
        if cb and not ca:
            x, n = a, int(cb.group(1))
        elif ca and not cb:
            x, n, op = b, int(ca.group(1)), SW[op]
        else:
            continue
        if not tr:
            op = NEG[op]
        if op == "Gt":
            out.append((x, n, g))
        elif op == "Ge":
            out.append((x, n - 1, g))
    return out


def unit_calls(prog, f, S=None):
    """symcalls of f plus the calls inside the closures f builds, their arguments rewritten into f's terms (lifted):
    [(block in f (the combinator call for closure-internal calls), callee, [args], term, Lifted or None)]"""
    from .sym import Sym
    S = S or Sym(prog, f)
    out = [(b, n, a, t, None) for (b, n, a, t) in symcalls(prog, f, S)]
    for L in lifted_closures(prog, f, S):
        for b, t in L.fn.calls():
            out.append((L.call_block if L.call_block is not None else L.site_block, cname(prog, t), [L.val(a) for a in t["args"]], t, L))
    return out


def nz(x):
    """strip leading reference/deref marks of a symbolic value"""
    return x.lstrip("&*")


def ret_locals(fn):
    """locals whose value is moved or copied (whole) into the return place: the return place of an inlined helper, a result temporary"""
    ret = {0}
    grew = True
    while grew:
        grew = False
        for bl in fn.blocks:
            if bl["cleanup"]:
                continue
            for s in bl["stmts"]:
                if s["lhs"]["l"] in ret and not s["lhs"]["p"] and s["rhs"]["rv"] == "use":
                    o = s["rhs"]["ops"][0]
                    if o.get("pl") and not o["pl"]["p"] and o["pl"]["l"] not in ret and not (1 <= o["pl"]["l"] <= fn.argc):
                        ret.add(o["pl"]["l"])
                        grew = True
    return ret
