"""EAM: no path returns an *argument* error after a state mutation (C04, C20)."""
import json
import os
import re

from .. import cfg
from ..flow import DefUse
from ..lib import cname, closure_sites, const_strs_feeding, error_sites, returns_io_result, short
from ..sym import Sym

VERIF = os.path.dirname(os.path.dirname(os.path.dirname(os.path.abspath(__file__))))

MUT_PRIM = re.compile(
    r"^cfb::CompoundFile::<F>::(create_stream|create_new_stream|create_stream_with_path|remove_stream|remove_storage|"
    r"remove_storage_all|create_storage|create_storage_all|set_storage_clsid|set_state_bits|touch|set_created_time|set_modified_time)"
    r"|^msi::internal::stringpool::StringPool::(incref|decref|set_codepage)$"
    r"|^std::io::Write::(write|write_all|write_fmt|write_vectored)$|^byteorder::WriteBytesExt::")

ENTRIES = [
    "msi::internal::package::Package::<F>::create_table_with_name",
    "msi::internal::package::Package::<F>::drop_table",
    "msi::internal::query::Insert::exec",
    "msi::internal::query::Update::exec",
    "msi::internal::query::Delete::exec",
    "msi::internal::query::Select::exec",
    "msi::internal::query::Join::exec",
    "msi::internal::package::Package::<F>::read_stream",
    "msi::internal::package::Package::<F>::write_stream",
    "msi::internal::package::Package::<F>::remove_stream",
    "msi::internal::package::Package::<F>::remove_digital_signature",
]

PKG_FIELDS = ("tables", "string_pool", "summary_info", "package_type")


class Summaries:
    def __init__(self, prog):
        self.prog = prog
        self.fns = [f for f in prog.fns.values() if f.crate == "msi"]
        self.mut = {}
        self.err = {}
        self._sym = {}
        for f in self.fns:
            self.mut[f.id] = self._local_mut(f)
            self.err[f.id] = bool(error_sites(prog, f)) and self._can_return_err(f)
        changed = True
        while changed:
            changed = False
            for f in self.fns:
                for g in self._callees(f):
                    if self.mut.get(g.id) and not self.mut[f.id]:
                        self.mut[f.id] = "calls " + short(g.name)
                        changed = True
                    if self.err.get(g.id) and not self.err[f.id] and self._can_return_err(f) and returns_io_result(g):
                        self.err[f.id] = True
                        changed = True

    def sym(self, f):
        if f.id not in self._sym:
            self._sym[f.id] = Sym(self.prog, f)
        return self._sym[f.id]

    def _can_return_err(self, f):
        if f.kind == "Closure":
            return False
        return returns_io_result(f)

    def _callees(self, f):
        out = []
        for b, t in f.calls():
            g = self.prog.callee_fn(t)
            if g is not None and g.crate == "msi":
                out.append(g)
        for b, c in closure_sites(self.prog, f):
            out.append(c)
        return out

    def _local_mut(self, f):
        for b, t in f.calls():
            n = cname(self.prog, t)
            if MUT_PRIM.search(n) or MUT_PRIM.search(t.get("callee") or ""):
                return short(n)
            m = self.pkg_field_mutation(f, t)
            if m:
                return m
        return None

    def pkg_field_mutation(self, f, t):
        """BTreeMap::insert/remove (or any &mut borrow) on a Package field passed to an external call"""
        n = t.get("callee") or ""
        if re.search(r"BTreeMap::<K, V, A>::(insert|remove|clear|retain|append)$", n):
            a = self.sym(f).val(t["args"][0])
            for fld in PKG_FIELDS:
                if re.search(r"\.%s\b" % fld, a) and "Package" in " ".join(f.locals[1:f.argc + 1]):
                    return "%s on Package.%s" % (n.rsplit("::", 1)[-1], fld)
        return None

    def mutation_blocks(self, f):
        """block -> description, for blocks of f whose terminator (or closure construction) may mutate"""
        out = {}
        for b, t in f.calls():
            n = cname(self.prog, t)
            g = self.prog.callee_fn(t)
            if MUT_PRIM.search(n) or MUT_PRIM.search(t.get("callee") or ""):
                out[b] = (short(n), t)
            elif g is not None and g.crate == "msi" and self.mut.get(g.id):
                out[b] = (short(n), t)
            else:
                m = self.pkg_field_mutation(f, t)
                if m:
                    out[b] = (m, t)
        for b, c in closure_sites(self.prog, f):
            if self.mut.get(c.id):
                out.setdefault(b, ("closure{%s}" % self.mut[c.id], None))
        return out

    def error_blocks(self, f):
        """block -> description for argument-error sources in f"""
        out = {}
        for (b, t, kind, mac) in error_sites(self.prog, f):
            out[b] = ("%s(%s)" % (mac or "io::Error::new", kind), t)
        for b, t in f.calls():
            g = self.prog.callee_fn(t)
            if g is not None and g.crate == "msi" and self.err.get(g.id) and returns_io_result(g):
                out[b] = (short(g.name), t)
        return out


def load_exceptions():
    with open(os.path.join(VERIF, "tables", "eam_exceptions.json")) as f:
        return json.load(f)["entries"]


def label(prog, f, t, du):
    """discriminate call sites of the same callee by the constant table name that flows into them"""
    if t is None:
        return ""
    ss = []
    for a in t["args"]:
        ss += const_strs_feeding(prog, f, a, du)
    ss = [s for s in ss if re.fullmatch(r"_[A-Za-z]+", s)]
    seen = []
    for s in ss:
        if s not in seen:
            seen.append(s)
    return "[" + ",".join(seen) + "]" if seen else ""


def run(ctx, rule="EAM", entries=ENTRIES):
    prog = ctx.prog
    ctx.rule(rule, "in each entry function there is no CFG path [call that may mutate package or container state] ->+ "
                   "[argument-error source: io::Error::new in msi, or a call that propagates one]; mutation = cfb create/remove/set, "
                   "any Write call, StringPool::incref/decref/set_codepage, insert/remove on Package.tables; errors originating "
                   "in cfb or the medium are C15's subject, not this rule's")
    S = Summaries(prog)
    exc = load_exceptions()
    used = set()
    n_entries = 0
    for name in entries:
        f = prog.fn(name)
        n_entries += 1
        du = DefUse(f)
        muts = S.mutation_blocks(f)
        errs = S.error_blocks(f)
        found = {}
        for mb, (mdesc, mt) in sorted(muts.items()):
            reach = cfg.reachable_strict(f, mb)
            for eb, (edesc, et) in sorted(errs.items()):
                if eb in reach:
                    key = (mdesc + label(prog, f, mt, du), edesc + label(prog, f, et, du))
                    found.setdefault(key, []).append((mb, eb))
        if not found:
            ctx.ok(rule, short(name), "no argument error is reachable after a mutation (%d mutation blocks, %d error sources)" % (
                len(muts), len(errs)), f.loc())
            continue
        for (m, e), pairs in sorted(found.items()):
            inst = "%s: %s -> %s" % (short(name), m, e)
            x = [j for j in exc if j["entry"] == short(name) and j["after"] in (m, "*") and j["error"] == e]
            if x:
                used.add(id(x[0]))
                ctx.justified(rule, inst, x[0]["reason"], f.loc(f.blocks[pairs[0][1]]["term"]["sp"]))
                continue
            mb, eb = pairs[0]
            path = cfg.find_path(f, mb, {eb})
            ctx.violation(rule, inst,
                          "an argument error (%s at %s) is reachable after the mutation %s at %s" % (
                              e, f.loc(f.blocks[eb]["term"]["sp"]), m, f.loc(f.blocks[mb]["term"]["sp"])),
                          f.loc(f.blocks[eb]["term"]["sp"]), fn=name,
                          path=["bb%d" % b for b in (path or [])], key="%s|%s|%s->%s" % (rule, short(name), m, e))
    ctx.floor(rule, "entry functions analysed", n_entries, len(entries))
    ctx.extra.setdefault("eam", {})["summaries"] = dict(
        may_mutate=sorted(short(prog.fns[i].name) for i, v in S.mut.items() if v)[:80],
        may_arg_error=sorted(short(prog.fns[i].name) for i, v in S.err.items() if v)[:80])
    return S


def pre_valid(ctx, rule="PRE-VALID"):
    """mechanical support for the create_table / drop_table EAM exceptions"""
    from ..lib import has_fact, symcalls
    from .errs import classify
    prog = ctx.prog
    ctx.rule(rule, "create_table_with_name: for each catalog insert (into _Columns, _Tables, _Validation) a check_rows call on the matching make_*_table "
                   "schema and on the same row vector dominates every mutation and is propagated with `?`; the _Validation insert (create) and delete (drop) "
                   "are guarded by tables.contains_key(_Validation)")
    S = Summaries(prog)
    f = prog.fn("msi::internal::package::Package::<F>::create_table_with_name")
    Sy = Sym(prog, f)
    du = DefUse(f)
    dom = cfg.dominators(f)
    muts = S.mutation_blocks(f)
    cs = symcalls(prog, f, Sy)
    checks = [c for c in cs if c[1] == "msi::internal::package::check_rows"]
    mk = {"_Columns": "make_columns_table", "_Tables": "make_tables_table", "_Validation": "make_validation_table"}

    def rows_id(v):
        m = re.findall(r"call@\d+:[^,)]*", v)
        return m[-1] if m else v
    # the same calls issued from a loop over an array of (make_*_table(..), &rows) pairs: one call site stands for every pair, provided the loop runs over that array
    # to exhaustion and every turn passes the call
    looped = {}
    from ..flow import derived_locals
    for c in list(checks):
        m0 = re.search(r"call@(\d+):[^@]*Iterator>?::next@Some\.0\.0\)?$", c[2][0])
        m1 = re.search(r"call@(\d+):[^@]*Iterator>?::next@Some\.0\.1\)?$", c[2][1])
        if not (m0 and m1 and m0.group(1) == m1.group(1)):
            continue
        nb = int(m0.group(1))
        nt = f.blocks[nb]["term"]
        recv = nt["args"][0].get("pl", {}).get("l") if nt["t"] == "call" and nt["args"] else None
        for bl in f.blocks:
            if bl["cleanup"]:
                continue
            for st in bl["stmts"]:
                r = st["rhs"]
                if not (r["rv"] == "agg" and r.get("array")):
                    continue
                elems = [Sy.val(o) for o in r["ops"]]
                if not all(e.startswith("tuple{") and "internal::package::make_" in e for e in elems):
                    continue
                if recv is None or recv not in derived_locals(f, {st["lhs"]["l"]}, through_calls=lambda tt: True):
                    continue
                # exhaustion: the switch on this next() — Some leads (through the call) back to next(), None leaves the loop
                sw = [x for x in f.blocks if not x["cleanup"] and x["term"]["t"] == "switch" and re.fullmatch(r"discr\(call@%d:.*\)" % nb, Sy.val(x["term"]["discr"]))]
                if len(sw) != 1:
                    continue
                some = [tg for (v, tg) in sw[0]["term"]["cases"] if v == 1] or [sw[0]["term"]["otherwise"]]
                none = [tg for (v, tg) in sw[0]["term"]["cases"] if v == 0] or [sw[0]["term"]["otherwise"]]
                every_turn = cfg.must_pass(f, some[0], {c[0]}, {nb})
                for e in elems:
                    parts = e[len("tuple{"):-1].split(",", 1)
                    if len(parts) == 2:
                        synth = (c[0], c[1], [parts[0], parts[1]], c[3])
                        checks.append(synth)
                        looped[id(synth)] = (nb, none[0], every_turn)
        checks.remove(c)
    n = 0
    for (b, nme, args, t) in cs:
        if nme != "msi::internal::package::Package::<F>::insert_rows":
            continue
        lab = label(prog, f, t, du).strip("[]")
        n += 1
        from ..lib import call_of
        qn, qargs = call_of(Sy, args[1])
        rid = rows_id(qargs[1]) if qn and qn.endswith("Insert::rows") and len(qargs) == 2 else None
        hit = [c for c in checks if mk.get(lab, "?") in c[2][0] and rid and rows_id(c[2][1]) == rid]
        ok = len(hit) == 1
        why = "no check_rows(%s(..), <same rows>) call" % mk.get(lab, "?")
        if ok:
            c = hit[0]
            tags = classify(f, du, c[3]["dest"]["l"])
            if id(c) in looped:
                nb_, none_, every_turn = looped[id(c)]
                domall = every_turn and all(none_ in dom.get(mb, ()) for mb in muts)
            else:
                domall = all(c[0] in dom.get(mb, ()) for mb in muts)
            ok = "propagated" in tags and domall
            why = "check_rows result %s; dominates all %d mutation blocks: %s" % (sorted(tags), len(muts), domall)
        ctx.check(ok, rule, "create_table: rows for %s are pre-validated" % lab, why,
                  "create_table inserts into %s without a dominating, propagated check_rows on the same rows and schema (%s): a late refusal leaves the table half created" % (lab, why),
                  f.loc(t["sp"]), fn=f.name, key="%s|create|%s" % (rule, lab))
        if lab == "_Validation":
            dels = [c for c in cs if c[1] == "msi::internal::package::Package::<F>::delete_rows" and label(prog, f, c[3], du) == "[_Validation]"]
            okd = len(dels) == 1 and dels[0][0] in dom.get(b, ()) or (len(dels) == 1 and b not in cfg.reachable(f, 0, avoid={dels[0][0]} | {
                tg for bl in f.blocks if not bl["cleanup"] and bl["term"]["t"] == "switch" and "contains_key(&*p1.tables" in Sy.val(bl["term"]["discr"]) for (v, tg) in bl["term"]["cases"] if v == 0}))
            ctx.check(okd, rule, "create_table: stale _Validation rows are deleted before the insert", "", "create_table inserts into _Validation without first deleting stale rows for the same table "
                      "name: a file that describes an absent table makes the insert fail (AlreadyExists) after the other catalog inserts", f.loc(t["sp"]), fn=f.name, key="%s|create|stale" % rule)
            ctx.check(has_fact(Sy, b, r"BTreeMap::<K, V, A>::contains_key\(&\*p1\.tables,.*_Validation", True), rule, "create_table: _Validation insert is optional", "",
                      "the _Validation insert is not guarded by tables.contains_key(_Validation): a package without that table fails after the other inserts", f.loc(t["sp"]), fn=f.name)
    ctx.floor(rule, "catalog inserts in create_table_with_name", n, 3)
    # check_rows itself judges every cell: nothing but the two loops stands in front of Column::is_valid_value
    cr = prog.fn("msi::internal::package::check_rows")
    sites = 0
    for g_ in prog.unit(cr):
        Sg_ = Sym(prog, g_)
        for (b_, nme_, args_, t_) in symcalls(prog, g_, Sg_):
            if not nme_.endswith("Column::is_valid_value"):
                continue
            sites += 1
            cond = [(e[:70], tr) for (e, tr, gd) in Sg_.bool_facts_at(b_) if not re.search(r"Iterator>?::next\)|Try>::branch\)|::next\)@Some", e)]
            ctx.check(not cond, rule, "check_rows judges every cell", "", "check_rows consults Column::is_valid_value only under %s: the other cells of a catalog row are first refused by the "
                      "real insert, after earlier catalog rows were written (the table is half created)" % cond, cr.loc(t_["sp"]), fn=cr.name, key="%s|check_rows|every-cell" % rule)
    ctx.floor(rule, "is_valid_value sites in check_rows", sites, 1)
    g = prog.fn("msi::internal::package::Package::<F>::drop_table")
    Sg = Sym(prog, g)
    dg = DefUse(g)
    n = 0
    for (b, nme, args, t) in symcalls(prog, g, Sg):
        if nme == "msi::internal::package::Package::<F>::delete_rows" and label(prog, g, t, dg) == "[_Validation]":
            n += 1
            ctx.check(has_fact(Sg, b, r"BTreeMap::<K, V, A>::contains_key\(&\*p1\.tables,.*_Validation", True), rule, "drop_table: _Validation delete is optional", "",
                      "drop_table deletes from _Validation without testing that the table exists (NotFound after earlier mutations for files without it)", g.loc(t["sp"]), fn=g.name)
    ctx.floor(rule, "_Validation delete in drop_table", n, 1)


def m_tgt(ctx, rule="M-TGT"):
    """frame condition: a DML statement writes only the named table's stream"""
    from ..lib import symcalls
    prog = ctx.prog
    ctx.rule(rule, "each of Insert::exec, Update::exec, Delete::exec issues exactly one create_stream, whose name is Table::stream_name() of the table looked up "
                   "under self.table_name, hands that stream to write_rows of the same table, and issues no remove_stream")
    for name in ("Insert", "Update", "Delete"):
        f = prog.fn("msi::internal::query::%s::exec" % name)
        S = Sym(prog, f)
        cs = symcalls(prog, f, S)
        cr = [c for c in cs if c[1] == "cfb::CompoundFile::<F>::create_stream"]
        rm = [c for c in cs if re.search(r"cfb::CompoundFile::<F>::remove_", c[1])]
        wr = [c for c in cs if c[1] == "msi::internal::table::Table::write_rows"]
        ok = len(cr) == 1 and not rm and len(wr) == 1
        detail = ""
        if ok:
            from ..lib import call_of
            cn, cargs = call_of(S, cr[0][2][1])
            nm = "%s(%s)" % (cn, ",".join(cargs))
            ok = cn is not None and cn.endswith("Table::stream_name") and re.search(r"BTreeMap::<K, V, A>::get\(&\*p4,&p1\.table_name\)@Some\.0", nm) is not None
            detail = nm[:160]
            ok = ok and re.search(r"BTreeMap::<K, V, A>::get\(&\*p4,&p1\.table_name\)@Some\.0", wr[0][2][0]) is not None
        ctx.check(ok, rule, "%s::exec" % name, detail, "%s::exec: create_stream x%d (name %s), remove x%d, write_rows x%d - not exactly one rewrite of the named table's own stream" % (
            name, len(cr), detail, len(rm), len(wr)), f.loc(), fn=f.name, key="%s|%s" % (rule, name))
