"""TYPE-1: compile_fail witnesses (C16). Runs rustdoc's doctest harness over /verif/witness, which path-depends on /repo."""
import json
import os
import re
import shutil
import subprocess
import tempfile

from .. import facts

WIT = os.path.join(facts.VERIF, "witness")


def run(ctx, rule="TYPE-1"):
    ctx.rule(rule, "with a medium type implementing only Read + Seek: open, every getter, select_rows (joins), read_stream, streams(), into_inner and drop compile; "
                   "each mutator and flush fails to type-check (compile_fail with the expected error code: E0599, E0277 for the associated function create); every "
                   "failing witness has a twin that differs only in the medium type and compiles")
    key = facts.tree_hash(facts.REPO, "dev")
    with open(os.path.join(WIT, "src", "lib.rs"), "rb") as f:
        import hashlib
        key += "-" + hashlib.sha256(f.read()).hexdigest()[:12]
    cache = os.path.join(facts.CACHE, "witness-%s.json" % key)
    res = None
    if os.path.exists(cache):
        with open(cache) as f:
            res = json.load(f)
    if res is None:
        target = tempfile.mkdtemp(prefix="verif-witness-")
        wit = os.path.join(target, "crate")
        shutil.copytree(WIT, wit, ignore=shutil.ignore_patterns("target", "Cargo.lock"))
        with open(os.path.join(wit, "Cargo.toml")) as f:
            toml = f.read().replace('path = "/repo"', 'path = "%s"' % facts.REPO)
        with open(os.path.join(wit, "Cargo.toml"), "w") as f:
            f.write(toml)
        shutil.copy(os.path.join(facts.REPO, "Cargo.lock"), os.path.join(wit, "Cargo.lock"))
        try:
            env = dict(os.environ, CARGO_TARGET_DIR=os.path.join(target, "t"), CARGO_NET_OFFLINE="true")
            env.pop("RUSTC_WRAPPER", None)
            env.pop("RUSTFLAGS", None)
            # the harness occasionally fails to start under heavy load (no doctest line at all): that is not a verdict, try again
            for attempt in range(3):
                r = subprocess.run(["cargo", "+nightly", "test", "--doc", "--offline"], cwd=wit, env=env, stdout=subprocess.PIPE, stderr=subprocess.STDOUT, text=True)
                out = r.stdout
                if re.search(r"^test src/lib\.rs - ", out, re.M):
                    break
        finally:
            shutil.rmtree(target, ignore_errors=True)
        tests = re.findall(r"^test src/lib\.rs - (\w+) \(line (\d+)\)( - compile fail| - compile)? \.\.\. (\w+)", out, re.M)
        res = dict(tests=[list(t) for t in tests], tail=out[-1500:], rc=r.returncode)
        if tests:
            os.makedirs(facts.CACHE, exist_ok=True)
            with open(cache, "w") as f:
                json.dump(res, f)
    tests = res["tests"]
    if not tests:
        ctx.anchor_missing(rule, "doctest results of /verif/witness (cargo +nightly test --doc failed to run: %s)" % res["tail"][-300:].replace("\n", " | "))
        return
    nfail = 0
    for (name, line, kind, status) in tests:
        what = "compile_fail witness" if "fail" in (kind or "") else "compiling twin"
        nfail += "fail" in (kind or "")
        if status == "ok":
            ctx.ok(rule, "%s (%s, line %s)" % (name, what, line), "as expected")
        elif "fail" in (kind or ""):
            ctx.violation(rule, name, "the mutator %s type-checks on a medium that implements only Read + Seek (or fails with a different error than expected): the read-only "
                          "API can name a writing capability" % name.replace("Witness_", ""), "witness/src/lib.rs:%s" % line, key="%s|%s" % (rule, name))
        else:
            ctx.violation(rule, name + " twin", "the compiling twin of %s no longer compiles: the witness would pass for the wrong reason (API changed?)" % name,
                          "witness/src/lib.rs:%s" % line, key="%s|twin|%s" % (rule, name))
    ctx.floor(rule, "compile_fail witnesses", nfail, 12)
    ctx.floor(rule, "doctests run", len(tests), 25)
