"""ALLOC-BOUND: every allocation whose size is an explicit operand (with_capacity, vec![x; n], resize, reserve, repeat)
in code reachable from the public API takes a size that is (a) the length of a collection already in memory,
(b) bounded by a dominating comparison against a constant, or (c) of a type no wider than 32 bits.
An unbounded 64-bit size taken from the file (a stream length, a product of counts) reaches
`capacity overflow` (a panic) or an allocation failure (an abort)."""
import re

from ..callgraph import CallGraph
from ..interval import Interval
from ..lib import cname, call_of
from ..sym import Sym
from .panic import _bounds_from_facts, _owner_name

# callee suffix -> index of the size operand
ALLOC = {
    "Vec::<T>::with_capacity": 0, "Vec::<T, A>::with_capacity_in": 0, "String::with_capacity": 0,
    "std::vec::from_elem": 1, "alloc::vec::from_elem": 1, "std::vec::from_elem_in": 1,
    "Vec::<T, A>::resize": 1, "Vec::<T, A>::reserve": 1, "Vec::<T, A>::reserve_exact": 1, "Vec::<T, A>::resize_with": 1,
    "String::reserve": 1, "String::reserve_exact": 1,
    "VecDeque::<T>::with_capacity": 0, "HashMap::<K, V>::with_capacity": 0, "HashSet::<T>::with_capacity": 0,
    "HashMap::<K, V, S, A>::reserve": 1, "HashSet::<T, S, A>::reserve": 1, "VecDeque::<T, A>::reserve": 1,
    "<impl [T]>::repeat": 1, "<impl str>::repeat": 1, "std::iter::repeat_n": 1,
    "BufReader::<R>::with_capacity": 0, "BufWriter::<W>::with_capacity": 0,
}
LIMIT = 2 ** 32 - 1
_LEN = re.compile(r"(::len\(|PtrMetadata|::len_utf8\(|::count\(|::size_hint\()")


def sites(prog, f):
    out = []
    for b, t in f.calls():
        n = cname(prog, t)
        for suf, ix in ALLOC.items():
            if n.endswith(suf) and ix < len(t["args"]):
                out.append((b, n, suf, t["args"][ix], t))
                break
    return out


def bound(prog, f, S, b, op):
    """(ok, reason)"""
    v = S.val(op)
    if op.get("k") == "const":
        return True, "constant size %s" % v
    if _LEN.search(v) and not re.search(r"\b(Mul|Shl)\b", v):
        return True, "size is the length of a collection already in memory: %s" % v[:80]
    iv = Interval(prog, f, S).of(op)
    hi = iv[1] if iv else None
    facts = [x for x in S.bool_facts_at(b)]
    cands = {v}
    # strip value-preserving casts: (x as usize)
    m = re.fullmatch(r"\((.*) as (usize|u64)\)", v)
    if m:
        cands.add(m.group(1))
    for c in cands:
        lo2, hi2 = _bounds_from_facts(facts, c)
        if hi2 is not None:
            hi = hi2 if hi is None else min(hi, hi2)
    if hi is not None and hi <= LIMIT:
        return True, "size bounded by %d (type width or dominating comparison)" % hi
    return False, "size %s has no bound below 2^32 at this point (interval upper bound %s)" % (v[:120], hi)


def run(ctx, entries, rule="ALLOC-BOUND", floor=6):
    prog = ctx.prog
    ctx.rule(rule, "every sized allocation reachable from the public API takes a size that is a constant, the length of an in-memory collection, "
                   "a value of a type at most 32 bits wide, or a value below a constant on every path (dominating comparison): no file content can "
                   "request a `capacity overflow` panic or an allocation of unbounded size")
    cg = CallGraph(prog)
    reach = cg.closure(entries)
    n = 0
    for fid in sorted(reach):
        f = prog.fns[fid]
        if f.crate == "cfb":
            continue
        ss = sites(prog, f)
        if not ss:
            continue
        S = Sym(prog, f)
        for (b, name, suf, op, t) in ss:
            n += 1
            ok, why = bound(prog, f, S, b, op)
            inst = "%s %s" % (_owner_name(f), suf)
            loc = f.loc(t.get("sp"))
            if ok:
                ctx.ok(rule, inst, why, loc)
            else:
                ctx.violation(rule, inst, "allocation of a size an input file controls: %s" % why, loc, fn=f.name,
                              path=cg.path(entries, f.id), key="%s|%s|%s" % (rule, _owner_name(f), suf))
    ctx.assume("ALLOC-BOUND accepts sizes up to 2^32-1 elements: on the 64-bit targets the crate supports this cannot overflow a capacity computation; "
               "whether the host grants a 4 GiB allocation (two reader sites take a 32-bit length from the file) is outside the rule")
    ctx.floor(rule, "sized allocation sites reachable from the public API", n, floor)
    return n
