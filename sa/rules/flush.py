"""FLUSH-1/2 (flush-before-drop typestate), CLOSE-1/2 (close paths), DIRTY-1/2 (dirty-flag discipline). C01, C15."""
import re

from .. import cfg
from ..flow import DefUse
from ..lib import calls, cname, field_assigns, const_assigned, has_fact, short, symcalls
from ..sym import Sym
from .errs import classify

P = "msi::internal::package::Package::<F>::"
FINISH = "msi::<internal::package::FinishImpl as internal::package::Finish<F>>::finish"
CREATE_STREAM = r"^cfb::CompoundFile::<F>::create_stream$"
WRITE_CALL = re.compile(r"^(std::io::Write::(write|write_all|write_fmt|write_vectored)|byteorder::WriteBytesExt::\w+)$")


def succeeded_facts(S, block, _depth=0):
    """set of call blocks K such that `result of call at K` went through `?` successfully before `block`.
    The operand of the `?` may be the call's result directly, or a local it was moved into (the return place of an inlined helper whose only other
    definitions are `from_residual` error results: on the Continue edge the value can only be K's Ok)."""
    out = set()
    for (e, op, v, g) in S.facts_at(block):
        m = re.fullmatch(r"discr\(call@(\d+):<std::result::Result<T, E> as std::ops::Try>::branch\)", e)
        if m and op == "==" and v == 0:
            bb = int(m.group(1))
            t = S.fn.blocks[bb]["term"]
            a = S.val(t["args"][0])
            mm = re.match(r"call@(\d+):", a)
            if mm:
                out.add(int(mm.group(1)))
                continue
            os_ = S.du.origins(t["args"][0])
            if any(o[0] != "call" for o in os_):
                continue
            real = [o for o in os_ if not (o[2].get("callee") or "").endswith("from_residual")]
            if len(real) == 1 and not real[0][3]:
                out.add(real[0][1])
                # whatever had succeeded before that call ran has succeeded here too
                if _depth < 4:
                    out |= succeeded_facts(S, real[0][1], _depth + 1)
    return out


def _param_index(f, S, op):
    """which parameter (1-based local) an operand is, after copy propagation"""
    v = S.val(op)
    m = re.fullmatch(r"&?\*?p(\d+)", v)
    return int(m.group(1)) if m else None


def writer_obligation(ctx, prog, g, pidx, seen, rule, origin):
    """g receives an owned container stream as parameter local `pidx`. Check flush-before-Ok-return."""
    key = (g.id, pidx)
    if key in seen:
        return
    seen.add(key)
    S = Sym(prog, g)
    pname = "p%d" % pidx
    writes = []
    flushes = []
    moved_to = []
    for b, t in g.calls():
        n = t.get("callee") or ""
        args = [S.val(a) for a in t["args"]]
        uses = [i for i, a in enumerate(args) if re.fullmatch(r"&?\*?%s" % pname, a) or re.fullmatch(r"std::io::Write::by_ref\(&%s\)" % pname, a)]
        if not uses:
            continue
        if WRITE_CALL.match(n):
            writes.append((b, t))
        elif n == "std::io::Write::flush":
            flushes.append((b, t))
        elif n == "std::io::Write::by_ref":
            continue
        else:
            h = prog.callee_fn(t)
            a = args[uses[0]]
            by_value = a == pname
            if h is not None and h.crate == "msi":
                if by_value:
                    moved_to.append((b, t, h, uses[0] + 1))
                else:
                    writes.append((b, t))  # lends &mut writer to a callee that writes through it
            elif n.endswith("mem::drop") and by_value:
                continue
            else:
                writes.append((b, t))
    inst = "%s (stream from %s)" % (short(g.name), origin)
    if moved_to and not writes:
        for (b, t, h, j) in moved_to:
            ctx.ok(rule, inst, "hands the stream by value to %s" % short(h.name), g.loc(t["sp"]))
            writer_obligation(ctx, prog, h, j, seen, rule, origin)
        return
    if not writes and not moved_to:
        ctx.ok(rule, inst, "performs no write on the stream", g.loc())
        return
    du = DefUse(g)
    good_flush = set()
    for b, t in flushes:
        d = t["dest"]
        tags = {"returned"} if d["l"] == 0 and not d["p"] else classify(g, du, d["l"])
        if tags & {"propagated", "returned"} and not any(x.startswith("discarded") or x == "matched:err-ignored" for x in tags):
            good_flush.add(b)
    resid = {b for b, t in g.calls() if (t.get("callee") or "").endswith("FromResidual::from_residual")}
    rets = set(g.returns())
    bad = []
    for b, t in writes + [(b, t) for (b, t, h, j) in moved_to]:
        if b in good_flush:
            continue
        start_succ = g.succs()[b]
        r = set()
        for s0 in start_succ:
            r |= cfg.reachable(g, s0, avoid=good_flush | resid)
        if r & rets:
            bad.append((b, t))
    if bad:
        b, t = bad[0]
        ctx.violation(rule, inst,
                      "%s writes to a container stream it owns (%d write sites) and can return Ok without a propagated Write::flush on it "
                      "(%d flush calls found): the stream is then dropped, and cfb::Stream's Drop discards the error of flushing its buffer, "
                      "so a failed write is followed by Ok from every call" % (short(g.name), len(writes), len(flushes)),
                      g.loc(t["sp"]), fn=g.name, key="%s|%s" % (rule, short(g.name)))
    else:
        ctx.ok(rule, inst, "every path from a write to an Ok return passes a propagated flush (%d writes, %d flushes)" % (len(writes), len(good_flush)), g.loc())


def flush1(ctx, rule="FLUSH-1"):
    prog = ctx.prog
    ctx.rule(rule, "every cfb::Stream obtained from create_stream inside msi is followed to the function that owns it (by-value parameter); in "
                   "each owner that writes to it, every path from a write to an Ok return passes Write::flush on it with the result propagated, "
                   "and no write follows the last flush (cfb::Stream::drop discards flush errors)")
    n = 0
    seen = set()
    for f in sorted(prog.fns.values(), key=lambda x: x.name):
        if f.crate != "msi":
            continue
        cs = calls(prog, f, CREATE_STREAM)
        if not cs:
            continue
        S = Sym(prog, f)
        for b, t in cs:
            n += 1
            # consumers: calls one of whose args is the Continue payload of `?` on this call
            pat = re.compile(r"^call@(\d+):<std::result::Result<T, E> as std::ops::Try>::branch@Continue\.0$")
            consumers = []
            for b2, t2 in f.calls():
                for i, a in enumerate(t2["args"]):
                    v = S.val(a)
                    m = pat.match(v)
                    if m:
                        bt = f.blocks[int(m.group(1))]["term"]
                        if S.val(bt["args"][0]).startswith("call@%d:" % b):
                            consumers.append((b2, t2, i))
            origin = "%s:%d" % (short((f.owner or f).name), t["sp"]["line"])
            if not consumers:
                ctx.violation(rule, "stream created in %s" % short(f.name), "cannot follow the created stream to an owner", f.loc(t["sp"]), fn=f.name)
                continue
            for (b2, t2, i) in consumers:
                h = prog.callee_fn(t2)
                if h is None or h.crate != "msi":
                    ctx.violation(rule, "stream created in %s" % short(f.name), "stream handed to %s, which is outside msi" % cname(prog, t2), f.loc(t2["sp"]), fn=f.name)
                    continue
                if h.name == "msi::internal::stream::StreamWriter::<F>::new":
                    ctx.ok(rule, "%s hands the stream to the caller inside StreamWriter" % short(f.name), "obligation continues as FLUSH-2", f.loc(t2["sp"]))
                    continue
                writer_obligation(ctx, prog, h, i + 1, seen, rule, origin)
    ctx.floor(rule, "create_stream call sites in msi", n, 7)


def flush2(ctx, rule="FLUSH-2"):
    prog = ctx.prog
    ctx.rule(rule, "StreamWriter::{write, flush, seek} forward to the container stream and return its result unchanged")
    for m, target in (("write", "std::io::Write>::write"), ("flush", "std::io::Write>::flush")):
        f = prog.fn("msi::<internal::stream::StreamWriter<F> as std::io::Write>::%s" % m)
        S = Sym(prog, f)
        cs = [(b, t) for b, t in f.calls() if cname(prog, t).startswith("cfb::<internal::stream::Stream<F> as ") and cname(prog, t).endswith(target)]
        ok = len(cs) == 1 and cs[0][1]["dest"]["l"] == 0 and S.val(cs[0][1]["args"][0]) == "&*p1.stream" and len(list(f.calls())) == 1
        ctx.check(ok, rule, "StreamWriter::%s" % m, "forwards to Stream::%s and returns its result" % m,
                  "StreamWriter::%s does not simply forward to cfb::Stream::%s and return its result (calls: %s)" % (m, m, [short(cname(prog, t)) for b, t in f.calls()]),
                  f.loc(), fn=f.name)


def close1(ctx, rule="CLOSE-1"):
    prog = ctx.prog
    ctx.rule(rule, "Package::flush, Package::into_inner and Drop::drop each take() the finisher and, on the Some edge, run dyn Finish::finish; flush "
                   "and into_inner propagate its result; flush returns the result of CompoundFile::flush; into_inner returns the medium only after")
    for name, must_prop in ((P + "flush", True), (P + "into_inner", True), ("msi::<internal::package::Package<F> as std::ops::Drop>::drop", False)):
        f = prog.fn(name)
        S = Sym(prog, f)
        du = DefUse(f)
        fin = [(b, t) for b, t in f.calls() if (t.get("callee") or "").endswith("Finish::finish")]
        tk = [(b, t) for b, t in f.calls() if (t.get("callee") or "").endswith("Option::<T>::take") and re.search(r"\.finisher$", S.val(t["args"][0]))]
        ok = len(fin) == 1 and len(tk) == 1
        if ok:
            b, t = fin[0]
            # the finish call sits on the Some edge of the take() result and nowhere else is it skipped
            ok = any(e.startswith("discr(") and "take(" in e and op == "==" and v == 1 for (e, op, v, g) in S.facts_at(b))
            # every path entry -> return passes the take
            ok = ok and not (set(f.returns()) & cfg.reachable(f, 0, avoid={tk[0][0]}))
        ctx.check(ok, rule, "%s runs the finisher" % short(name), "take() then finish on the Some edge",
                  "%s does not take() the finisher and run it on the Some edge on every path (finish calls: %d, take calls: %d)" % (short(name), len(fin), len(tk)),
                  f.loc(), fn=f.name, key="%s|%s|runs" % (rule, short(name)))
        if ok and must_prop:
            b, t = fin[0]
            tags = classify(f, du, t["dest"]["l"])
            ctx.check("propagated" in tags or "returned" in tags or "rethrown" in tags, rule, "%s propagates the finisher's error" % short(name), str(sorted(tags)),
                      "%s does not propagate the result of finish(): %s" % (short(name), sorted(tags)), f.loc(t["sp"]), fn=f.name, key="%s|%s|prop" % (rule, short(name)))
    f = prog.fn(P + "flush")
    cf = [(b, t) for b, t in f.calls() if cname(prog, t) == "cfb::CompoundFile::<F>::flush"]
    from ..lib import ret_locals
    rl = ret_locals(f)
    ok = len(cf) >= 1 and all(c[1]["dest"]["l"] in rl and not c[1]["dest"]["p"] for c in cf)
    if ok:
        # a container flush whose result is returned is reached on both edges (finisher present or absent), only error returns skip it
        resid = {b for b, t in f.calls() if (t.get("callee") or "").endswith("FromResidual::from_residual")}
        resid |= {bl["id"] for bl in f.blocks if not bl["cleanup"] for st in bl["stmts"] if st["lhs"]["l"] in rl and not st["lhs"]["p"] and st["rhs"]["rv"] == "agg" and st["rhs"].get("variant") == "Err"}
        # `return outcome` under `outcome.is_err()`: the finisher's own failed result is what is returned
        Sf_ = Sym(prog, f)
        for bl in f.blocks:
            if bl["cleanup"]:
                continue
            def _is_err_of_finish(e):
                m_ = re.fullmatch(r"call@(\d+):std::result::Result::<T, E>::is_err", e)
                return bool(m_) and re.fullmatch(r"&?call@\d+:.*Finish.*::finish", Sf_.val(f.blocks[int(m_.group(1))]["term"]["args"][0])) is not None
            if any(_is_err_of_finish(e) and tr is True for (e, tr, g) in Sf_.bool_facts_at(bl["id"])) and \
                    any(st["lhs"]["l"] in rl and not st["lhs"]["p"] and st["rhs"]["rv"] == "use" and re.fullmatch(r"call@\d+:.*Finish.*::finish", Sf_.val(st["rhs"]["ops"][0])) for st in bl["stmts"]):
                resid.add(bl["id"])
        ok = not (set(f.returns()) & cfg.reachable(f, 0, avoid={c[0] for c in cf} | resid))
    ctx.check(ok, rule, "flush returns CompoundFile::flush", "", "Package::flush does not end by returning the result of CompoundFile::flush on every non-error path", f.loc(), fn=f.name,
              key="%s|flush|container" % rule)
    f = prog.fn(P + "into_inner")
    S = Sym(prog, f)
    ii = [(b, t) for b, t in f.calls() if cname(prog, t) == "cfb::CompoundFile::<F>::into_inner"]
    fin = [(b, t) for b, t in f.calls() if (t.get("callee") or "").endswith("Finish::finish")]
    ok = len(ii) == 1 and len(fin) == 1 and fin[0][0] not in cfg.reachable(f, ii[0][0])
    ctx.check(ok, rule, "into_inner releases the medium after the finisher", "", "into_inner does not run the finisher before CompoundFile::into_inner", f.loc(), fn=f.name)


def close2(ctx, rule="CLOSE-2"):
    prog = ctx.prog
    ctx.rule(rule, "FinishImpl::finish: the summary stream (create_stream(SUMMARY_INFO_STREAM_NAME) + SummaryInfo::write) is written exactly when "
                   "is_summary_info_modified; _StringPool and _StringData (constant names, table-encoded) are written exactly when "
                   "StringPool::is_modified(), independently of the summary flag; each flag is cleared only after its writes succeeded")
    f = prog.fn(FINISH)
    S = Sym(prog, f)
    cs = symcalls(prog, f, S)

    def one(pred, what):
        xs = [c for c in cs if pred(c)]
        if len(xs) != 1:
            ctx.violation(rule, what, "expected exactly one %s in FinishImpl::finish, found %d" % (what, len(xs)), f.loc(), fn=f.name, key="%s|missing|%s" % (rule, what))
            return None
        return xs[0]

    summ_cs = one(lambda c: c[1] == "cfb::CompoundFile::<F>::create_stream" and "SummaryInformation" in c[2][1], "create_stream(SUMMARY_INFO_STREAM_NAME)")
    summ_w = one(lambda c: c[1] == "msi::internal::summary::SummaryInfo::write", "SummaryInfo::write")
    pool_w = one(lambda c: c[1] == "msi::internal::stringpool::StringPool::write_pool", "StringPool::write_pool")
    data_w = one(lambda c: c[1] == "msi::internal::stringpool::StringPool::write_data", "StringPool::write_data")
    unmod = one(lambda c: c[1] == "msi::internal::stringpool::StringPool::mark_unmodified", "StringPool::mark_unmodified")
    if not all((summ_cs, summ_w, pool_w, data_w, unmod)):
        return
    sflag = r"^\*p2\.is_summary_info_modified$"
    pflag = r"^internal::stringpool::StringPool::is_modified\(&\*p2\.string_pool\)$"
    for c, what in ((summ_cs, "summary stream creation"), (summ_w, "SummaryInfo::write")):
        facts = S.bool_facts_at(c[0])
        ok = has_fact(S, c[0], sflag, True) and not any(re.search(pflag, e) for (e, tr, g) in facts)
        ctx.check(ok, rule, "%s exactly under is_summary_info_modified" % what, "", "%s is not controlled exactly by is_summary_info_modified (facts: %s)" % (
            what, [(e[:50], tr) for e, tr, g in facts if isinstance(tr, bool)]), f.loc(c[3]["sp"]), fn=f.name, key="%s|summary-control" % rule)
    ctx.check("call@" in summ_w[2][1] and "@Continue.0" in summ_w[2][1] and summ_cs[0] in succeeded_facts(S, summ_w[0]), rule,
              "SummaryInfo::write receives the created summary stream", "", "SummaryInfo::write is not given the stream created under SUMMARY_INFO_STREAM_NAME", f.loc(), fn=f.name)
    for c, nm in ((pool_w, "_StringPool"), (data_w, "_StringData")):
        facts = S.bool_facts_at(c[0])
        ok = has_fact(S, c[0], pflag, True) and not any(re.search(sflag, e) for (e, tr, g) in facts)
        ctx.check(ok, rule, "%s exactly under StringPool::is_modified()" % short(c[1]), "", "%s is not controlled exactly by StringPool::is_modified() (facts: %s)" % (
            short(c[1]), [(e[:50], tr) for e, tr, g in facts if isinstance(tr, bool)]), f.loc(c[3]["sp"]), fn=f.name, key="%s|pool-control|%s" % (rule, nm))
        # the stream argument comes from create_stream(encode(nm, true))
        m = re.match(r"call@(\d+):.*@Continue\.0$", c[2][1])
        okk = False
        if m:
            bt = f.blocks[int(m.group(1))]["term"]
            src = S.val(bt["args"][0])
            mm = re.match(r"call@(\d+):cfb::CompoundFile::<F>::create_stream", src)
            if mm:
                ct = f.blocks[int(mm.group(1))]["term"]
                nm_arg = S.val(ct["args"][1])
                mmm = re.match(r"call@(\d+):internal::streamname::encode", nm_arg)
                if mmm:
                    et = f.blocks[int(mmm.group(1))]["term"]
                    ea = [S.val(a) for a in et["args"]]
                    okk = ea == ["&*s:'%s'" % nm, "c:1"]
        ctx.check(okk, rule, "%s goes to the %s table stream" % (short(c[1]), nm), "", "%s is not written to create_stream(encode(%r, true))" % (short(c[1]), nm),
                  f.loc(c[3]["sp"]), fn=f.name, key="%s|pool-name|%s" % (rule, nm))
    # clears
    clears = [(b, s) for (b, s) in field_assigns(f, "is_summary_info_modified") if const_assigned(s) == 0]
    sets = [(b, s) for (b, s) in field_assigns(f, "is_summary_info_modified") if const_assigned(s) != 0]
    ok = len(clears) == 1 and not sets and summ_w[0] in succeeded_facts(S, clears[0][0])
    ctx.check(ok, rule, "summary flag cleared only after a successful write", "", "is_summary_info_modified is cleared %d time(s) and not (only) after SummaryInfo::write succeeded: "
              "a failed write would be forgotten, or the flag never clears" % len(clears), f.loc(), fn=f.name, key="%s|summary-clear" % rule)
    su = succeeded_facts(S, unmod[0])
    ctx.check(pool_w[0] in su and data_w[0] in su, rule, "pool flag cleared only after both writes succeeded", "", "mark_unmodified() is not dominated by the success of write_pool and write_data",
              f.loc(unmod[3]["sp"]), fn=f.name, key="%s|pool-clear" % rule)
    # the function returns Ok only at the end; no early Ok return skips the pool section
    oks = [b["id"] for b in f.blocks if not b["cleanup"] for s in b["stmts"] if s["lhs"]["l"] == 0 and s["rhs"]["rv"] == "agg" and s["rhs"].get("variant") == "Ok"]
    pm = [c for c in cs if c[1] == "msi::internal::stringpool::StringPool::is_modified"]
    ok = len(oks) >= 1 and len(pm) == 1 and not (set(oks) & cfg.reachable(f, 0, avoid={pm[0][0]} | {b for b, t in f.calls() if (t.get("callee") or "").endswith("from_residual")}))
    # an Ok before the pool section's writes is legitimate only on the `pool not modified` edge
    for ob in oks:
        if len(oks) > 1 and pm and pool_w[0] not in su and not cfg.reachable(f, pm[0][0]) >= {ob}:
            ok = False
    if ok and len(oks) > 1:
        early = [ob for ob in oks if unmod[0] not in cfg.backward_reachable(f, {ob})]
        ok = all(has_fact(S, ob, r"StringPool::is_modified\(", False) for ob in early)
    ctx.check(ok, rule, "every successful path tests the pool flag", "", "FinishImpl::finish can return Ok without testing StringPool::is_modified()", f.loc(), fn=f.name)


# --------------------------------------------------------------------------- DIRTY
def dirty1(ctx, rule="DIRTY-1"):
    prog = ctx.prog
    ctx.rule(rule, "in impl StringPool every &mut self method that mutates `strings`, `codepage` or `long_string_refs` assigns is_modified = true on every "
                   "non-panicking path from entry to return that contains such a mutation; mark_unmodified is the only clearer")
    n = 0
    for f in sorted(prog.fns.values(), key=lambda x: x.name):
        if f.crate != "msi" or f.parent != "internal::stringpool::StringPool" or f.kind != "AssocFn":
            continue
        if not f.locals[1].startswith("&mut "):
            continue
        S = Sym(prog, f)
        mut_blocks = set()
        FIELDS = ("strings", "codepage", "long_string_refs")
        NAV = re.compile(r"(IndexMut::index_mut|Index::index|<impl \[T\]>::iter_mut|IntoIterator::into_iter|Iterator::enumerate|Iterator::next|"
                         r"DerefMut::deref_mut|Deref::deref|<impl \[T\]>::iter|Option::<T>::as_mut|<impl \[T\]>::get_mut|<impl \[T\]>::len|Vec::<T, A>::len)$")
        borrows = set()
        for bl in f.blocks:
            if bl["cleanup"]:
                continue
            for s in bl["stmts"]:
                names = [e["n"] for e in s["lhs"]["p"] if isinstance(e, dict) and "f" in e]
                if s["lhs"]["l"] == 1 and names and names[0] in FIELDS:
                    mut_blocks.add(bl["id"])
                r = s["rhs"]
                if r["rv"] == "ref" and r.get("mut") and r["pl"]["l"] == 1:
                    nm = [e["n"] for e in r["pl"]["p"] if isinstance(e, dict) and "f" in e]
                    if nm and nm[0] in FIELDS:
                        borrows.add(s["lhs"]["l"])
        from ..flow import derived_locals
        D = derived_locals(f, borrows, through_calls=lambda t: NAV.search(t.get("callee") or "") is not None) if borrows else set()
        for bl in f.blocks:
            if bl["cleanup"]:
                continue
            for s in bl["stmts"]:
                if s["lhs"]["l"] in D and "*" in s["lhs"]["p"]:
                    mut_blocks.add(bl["id"])  # store through the borrow
            t = bl["term"]
            if t["t"] == "call" and not NAV.search(t.get("callee") or ""):
                for a in t["args"]:
                    if a.get("pl") and a["pl"]["l"] in D and f.locals[a["pl"]["l"]].startswith("&mut"):
                        mut_blocks.add(bl["id"])  # hands the &mut to something that may write
        sets = [(b, s) for (b, s) in field_assigns(f, "is_modified")]
        set_true = {b for (b, s) in sets if const_assigned(s) == 1}
        set_false = {b for (b, s) in sets if const_assigned(s) == 0}
        if set_false:
            ctx.check(f.path.endswith("::mark_unmodified"), rule, "%s clears is_modified" % short(f.name), "the one permitted clearer",
                      "%s clears StringPool.is_modified; only mark_unmodified may" % short(f.name), f.loc(), fn=f.name, key="%s|clearer|%s" % (rule, short(f.name)))
        if not mut_blocks:
            continue
        n += 1
        # every entry->return path through a mutation block must pass a flag store
        bad = []
        for m in mut_blocks:
            if m in set_true:
                continue
            # paths: entry ->* m ->* return, avoiding flag stores entirely
            before = m in cfg.reachable(f, 0, avoid=set_true)
            after = bool(set(f.returns()) & cfg.reachable(f, m, avoid=set_true))
            if before and after:
                bad.append(m)
        ctx.check(not bad, rule, "%s marks the pool modified" % short(f.name), "%d mutation blocks, flag stores in %s" % (len(mut_blocks), sorted(set_true)),
                  "%s mutates the pool on a path that never sets is_modified = true (mutation in bb%s): the change is not saved by the finisher" % (
                      short(f.name), bad[:3]), f.loc(), fn=f.name, key="%s|%s" % (rule, short(f.name)))
    ctx.floor(rule, "mutating StringPool methods", n, 3)


def dirty2(ctx, rule="DIRTY-2"):
    prog = ctx.prog
    ctx.rule(rule, "every Package method (outside the closers and the finisher) that can mutate the string pool or hands out &mut SummaryInfo calls "
                   "set_finisher on every path before the first such effect; summary_info_mut additionally sets is_summary_info_modified = true; "
                   "set_finisher stores Some(FinishImpl) when the slot is empty")
    from .eam import Summaries
    Sm = Summaries(prog)
    pool_mut = re.compile(r"^msi::internal::stringpool::StringPool::(incref|decref|set_codepage)$")
    # functions that may (transitively) mutate the pool
    may = {}
    fns = [f for f in prog.fns.values() if f.crate == "msi"]
    for f in fns:
        may[f.id] = any(pool_mut.search(cname(prog, t)) for b, t in f.calls())
    changed = True
    while changed:
        changed = False
        for f in fns:
            if may[f.id]:
                continue
            for g in Sm._callees(f):
                if may.get(g.id):
                    may[f.id] = True
                    changed = True
                    break
    n = 0
    for f in sorted(fns, key=lambda x: x.name):
        if f.parent != "internal::package::Package<F>" or f.kind != "AssocFn":
            continue
        if f.path.endswith(("::set_finisher", "::flush", "::into_inner", "::create")):
            continue
        S = Sym(prog, f)
        effects = []
        for b, t in f.calls():
            g = prog.callee_fn(t)
            n_ = cname(prog, t)
            if g is not None and g.crate == "msi" and may.get(g.id) and not (g.parent == "internal::package::Package<F>"):
                effects.append((b, short(n_)))
            elif pool_mut.search(n_):
                effects.append((b, short(n_)))
        hands_out = f.locals[0].startswith("&mut") and "SummaryInfo" in f.locals[0]
        if hands_out:
            effects += [(b, "returns &mut SummaryInfo") for b in f.returns()]
        if not effects:
            continue
        n += 1
        sf = {b for b, t in f.calls() if cname(prog, t) == P + "set_finisher"}
        rets = set(f.returns())

        def armed_after(b):
            # every way from the effect to a return (error returns included) passes set_finisher
            return not (rets & cfg.reachable_strict(f, b, avoid=sf))
        bad = [e for e in effects if e[0] in cfg.reachable(f, 0, avoid=sf) and e[0] not in sf and not (sf and armed_after(e[0]))]
        ctx.check(not bad, rule, "%s arms the finisher" % short(f.name), "effects %s" % sorted({e[1] for e in effects}),
                  "%s can reach %s without calling set_finisher before it (or on every path after it): the change is never written back on close" % (short(f.name), sorted({e[1] for e in bad})),
                  f.loc(), fn=f.name, key="%s|%s" % (rule, short(f.name)))
        if hands_out:
            st = {b for (b, s) in field_assigns(f, "is_summary_info_modified") if const_assigned(s) == 1}
            bad2 = [b for b in f.returns() if b in cfg.reachable(f, 0, avoid=st)]
            ctx.check(not bad2, rule, "%s marks the summary modified" % short(f.name), "", "%s hands out &mut SummaryInfo without setting is_summary_info_modified = true" % short(f.name),
                      f.loc(), fn=f.name, key="%s|%s|flag" % (rule, short(f.name)))
    ctx.floor(rule, "Package methods with pool/summary effects", n, 5)
    f = prog.fn(P + "set_finisher")
    S = Sym(prog, f)
    st = field_assigns(f, "finisher")
    ok = len(st) == 1
    if ok:
        v = S.val(st[0][1]["rhs"]["ops"][0]) if st[0][1]["rhs"].get("ops") else ""
        ok = "Option::Some" in v or st[0][1]["rhs"].get("variant") == "Some"
        fs = S.bool_facts_at(st[0][0])
        empty = has_fact(S, st[0][0], r"Option::<T>::is_none\(&\*p1\.finisher\)", True) or has_fact(S, st[0][0], r"Option::<T>::is_some\(&\*p1\.finisher\)", False) or \
            has_fact(S, st[0][0], r"^discr\(\*p1\.finisher\)$", ("==", 0))
        # stored when the slot is empty (any spelling of that test), or unconditionally; never under an unrelated condition
        ok = ok and (empty or not fs) and len(fs) <= 1
    boxed = [t for b, t in f.calls() if (t.get("callee") or "").endswith("Box::<T>::new") and "FinishImpl" in (t.get("written") or "")]
    ctx.check(ok and len(boxed) == 1, rule, "set_finisher stores Some(Box<FinishImpl>) when empty", "", "set_finisher does not store Some(Box::new(FinishImpl)) into an empty slot", f.loc(), fn=f.name)


def close3(ctx, rule="CLOSE-3"):
    """a failed save keeps the finisher armed"""
    prog = ctx.prog
    ctx.rule(rule, "Package::flush takes the finisher out of its slot before running it; on every path on which Finish::finish did not succeed, the slot is filled again "
                   "(self.finisher = Some(..)) before flush returns — otherwise the next flush finds no finisher, writes nothing and reports Ok although the pool, the "
                   "summary and the dirty flags are still pending")
    f = prog.fn(P + "flush")
    S = Sym(prog, f)
    fin = [(b, t) for b, t in f.calls() if (t.get("callee") or "").endswith("Finish::finish") or cname(prog, t).endswith("Finish<F>>::finish") or cname(prog, t).endswith("::finish")]
    fin = [(b, t) for b, t in fin if "Finish" in (t.get("callee") or "") + cname(prog, t)]
    if not ctx.check(len(fin) == 1, rule, "flush runs the finisher", "", "Package::flush has %d calls of Finish::finish, expected 1" % len(fin), f.loc(), fn=f.name, key=rule + "|anchor"):
        return
    fb = fin[0][0]
    ok_targets = set()
    for bl in f.blocks:
        if bl["cleanup"] or bl["term"]["t"] != "switch":
            continue
        d = S.val(bl["term"]["discr"])
        direct = re.fullmatch(r"discr\(call@%d:.*\)" % fb, d)
        viatry = re.fullmatch(r"discr\(call@(\d+):<std::result::Result<T, E> as std::ops::Try>::branch\)", d)
        if viatry:
            a = S.val(f.blocks[int(viatry.group(1))]["term"]["args"][0])
            viatry = a.startswith("call@%d:" % fb)
        isr = re.fullmatch(r"call@(\d+):std::result::Result::<T, E>::(is_err|is_ok)", d)
        if isr and not S.val(f.blocks[int(isr.group(1))]["term"]["args"][0]).lstrip("&").startswith("call@%d:" % fb):
            isr = None
        if isr:
            isr = re.match(r"()(is_err|is_ok)", isr.group(2))
            # `if outcome.is_err() { re-arm; return outcome }`: the success edge is is_err == false / is_ok == true
            want_v = 0 if isr.group(2) == "is_err" else 1
            for v, tg in bl["term"]["cases"]:
                if v == want_v:
                    ok_targets.add(tg)
            if want_v not in [v for v, tg in bl["term"]["cases"]]:
                ok_targets.add(bl["term"]["otherwise"])
        if direct or viatry:
            cases = bl["term"]["cases"]
            for v, tg in cases:
                if v == 0:
                    ok_targets.add(tg)
            if [v for v, tg in cases] == [1]:
                ok_targets.add(bl["term"]["otherwise"])  # `if let Err(e) = ..`: everything but Err is the success edge
    rearm = {b for (b, s) in field_assigns(f, "finisher") if s["rhs"]["rv"] == "agg" and s["rhs"].get("variant") == "Some" or
             (s["rhs"]["rv"] == "use" and "Some" in S.val(s["rhs"]["ops"][0]))}
    nxt = f.blocks[fb]["term"]["succ"][0]
    bad = set(f.returns()) & cfg.reachable(f, nxt, avoid=ok_targets | rearm)
    ctx.check(bool(ok_targets) and not bad, rule, "a failed finish leaves the finisher armed", "success edge(s) bb%s, re-arm in bb%s" % (sorted(ok_targets), sorted(rearm)),
              "Package::flush can return after Finish::finish failed without putting the finisher back: the next flush() returns Ok without saving the string pool / summary "
              "(failing history: insert rows; flush() fails on a write; flush() again -> Ok; reopen shows empty strings)", f.loc(), fn=f.name, key=rule + "|flush")


ADAPTER = re.compile(r"(BufWriter::<W>::(new|with_capacity)|LineWriter::<W>::(new|with_capacity))$")


def adapter_sites(prog, f):
    """[(creation block, ok, why)] for every std buffering writer created in f: its Drop flushes and discards the error, so every path from the creation
    to a return must pass an explicit flush()/into_inner() on it whose result is not discarded"""
    from ..flow import derived_locals
    from .errs import classify
    out = []
    du = DefUse(f)
    for b, t in f.calls():
        if not ADAPTER.search(t.get("callee") or "") and not ADAPTER.search(t.get("resolved") or ""):
            continue
        L = t["dest"]["l"]
        der = derived_locals(f, {L})
        fl = set()
        for bb, tt in f.calls():
            n = tt.get("callee") or ""
            if (n.endswith("Write::flush") or n.endswith("BufWriter::<W>::into_inner") or n.endswith("LineWriter::<W>::into_inner")) and tt["args"] and tt["args"][0].get("pl") and tt["args"][0]["pl"]["l"] in der:
                tags = {"returned"} if tt["dest"]["l"] == 0 else classify(f, du, tt["dest"]["l"])
                if tags & {"propagated", "returned", "rethrown", "unwrapped"}:
                    fl.add(bb)
        # error returns that happen while the adapter is alive are fine (the caller learns about the failure); success returns must have flushed
        resid = {bb for bb, tt in f.calls() if (tt.get("callee") or "").endswith("FromResidual::from_residual")}
        bad = set(f.returns()) & cfg.reachable(f, t["succ"][0], avoid=fl | resid) if t.get("succ") else set()
        out.append((b, not bad, "flushed explicitly on every successful path" if not bad else "a successful path drops the adapter without an explicit, checked flush"))
    return out


def adapter_drop(ctx, rule="ADAPTER-DROP"):
    prog = ctx.prog
    ctx.rule(rule, "a std::io::BufWriter / LineWriter created in msi is explicitly flushed (or unwrapped with into_inner) with the result checked on every successful path before it "
                   "goes out of scope: its destructor flushes too, but throws the error away, so the data may not have reached the stream although every call returned Ok")
    n = 0
    for f in sorted(prog.fns.values(), key=lambda x: x.name):
        if f.crate != "msi":
            continue
        for (b, ok, why) in adapter_sites(prog, f):
            n += 1
            ctx.check(ok, rule, "%s: buffering adapter" % short(f.name), why, "%s creates a buffering writer and %s: a write error surfacing in the destructor is lost and flush() still reports Ok" % (
                short(f.name), why), f.loc(f.blocks[b]["term"].get("sp")), fn=f.name, key="%s|%s" % (rule, short(f.name)))
    ctx.ok(rule, "buffering adapters in msi", "%d site(s)" % n)
