"""C18: constants and saturating shape of the timestamp conversions (drift itself is not decided)."""
import re

from ..lib import cname, has_fact, interval_of, short, symcalls
from ..sym import Sym

EPOCH = 116444736000000000
M = "msi::internal::timestamp::"


def run(ctx):
    prog = ctx.prog
    R = "TS-SHAPE"
    ctx.rule(R, "the two conversions are built from the format's constants and from saturating/checked operations only: epoch tick count "
                "116444736000000000, 10^7 ticks per second, 100 ns per tick; times after 1970 saturating_add the delta, times before "
                "saturating_sub it; the reverse direction subtracts on the side its `>=` test selects and uses checked_add/checked_sub")
    k = prog.const(M + "UNIX_EPOCH_TIMESTAMP")
    ctx.check(k["val"] == EPOCH, R, "UNIX_EPOCH_TIMESTAMP", str(k["val"]), "UNIX_EPOCH_TIMESTAMP is %s, the Windows tick count of 1970-01-01 is %d" % (k["val"], EPOCH))
    E = "c:%d" % EPOCH
    f = prog.fn(M + "timestamp_from_system_time")
    S = Sym(prog, f)
    cs = symcalls(prog, f, S)
    ds = [c for c in cs if c[1].endswith("SystemTime::duration_since")]
    ctx.check(len(ds) == 1 and ds[0][2][1] == "k:std::time::UNIX_EPOCH", R, "from_system_time measures from UNIX_EPOCH", "",
              "duration_since is not taken relative to UNIX_EPOCH: %s" % [c[2] for c in ds], f.loc(), fn=f.name)
    for arm, op, discr in (("Ok", "saturating_add", 0), ("Err", "saturating_sub", 1)):
        hits = [c for c in cs if c[1].endswith("<impl u64>::" + op)]
        ok = len(hits) == 1 and hits[0][2][0] == E and "duration_to_timestamp_delta" in hits[0][2][1] and \
            has_fact(S, hits[0][0], r"^discr\(call@\d+:std::time::SystemTime::duration_since\)$", ("==", discr))
        other = [c[1].rsplit("::", 1)[-1] for c in cs if "<impl u64>::" in c[1]]
        ctx.check(ok, R, "from_system_time %s arm" % arm, "%s(EPOCH, delta)" % op,
                  "the %s arm (time %s 1970) does not compute %s(UNIX_EPOCH_TIMESTAMP, delta); u64 operations present: %s" % (
                      arm, "after" if arm == "Ok" else "before", op, other), f.loc(), fn=f.name, key="%s|from|%s" % (R, arm))
    # nothing narrows the tick count after the saturating step: every u64 is a tick count of the format (the maximum reads as the year 60056), so a further
    # bound (min, clamp, a comparison with a constant) maps distinct representable times to one value
    import re as _re
    from ..lib import unit_comparisons
    narrow = sorted({c[1].rsplit("::", 1)[-1] for c in cs if _re.search(r"(Ord::(min|max|clamp)|<impl u64>::(min|max|clamp|rem_euclid|wrapping_\w+)|<impl i64>::\w+)$", c[1])})
    cmpk = [(o, x[:40], y[:40]) for (o, x, y, fa) in unit_comparisons(prog, f, S) if _re.fullmatch(r"c:\d{6,}", y) or _re.fullmatch(r"c:\d{6,}", x)]
    ctx.check(not narrow and not cmpk, R, "from_system_time result is not narrowed", "", "timestamp_from_system_time bounds its result again (%s %s): times between that bound and the "
              "64-bit tick maximum all read back as one value" % (narrow, cmpk), f.loc(), fn=f.name, key="%s|from|narrow" % R)
    f = prog.fn(M + "system_time_from_timestamp")
    S = Sym(prog, f)
    cs = symcalls(prog, f, S)
    for op, truth, arg in (("checked_add", True, "(p1 Sub! %s).0" % E), ("checked_sub", False, "(%s Sub! p1).0" % E)):
        hits = [c for c in cs if c[1].endswith("SystemTime::" + op)]
        alt = "core::num::<impl u64>::checked_sub(p1,%s)@Some.0" % E if truth else None  # `match timestamp.checked_sub(EPOCH) { Some(delta) => .. }`
        conv = [c for c in cs if c[1].endswith("timestamp_delta_to_duration") and (c[2] == [arg] or (alt and c[2] == [alt]))]
        def side(b):
            lo, hi, ex = interval_of(S.bool_facts_at(b), "p1")
            return (lo is not None and lo >= EPOCH) if truth else (hi is not None and hi <= EPOCH)
        ok = len(hits) == 1 and "UNIX_EPOCH" in hits[0][2][0] and "timestamp_delta_to_duration" in hits[0][2][1] and len(conv) == 1 and \
            side(hits[0][0]) and side(conv[0][0])
        ctx.check(ok, R, "to_system_time %s side" % op, "UNIX_EPOCH.%s(delta_to_duration(%s))" % (op, arg),
                  "the %s-1970 side is not UNIX_EPOCH.%s(timestamp_delta_to_duration(%s)) under `timestamp >= EPOCH` == %s" % (
                      "post" if truth else "pre", op, arg, truth), f.loc(), fn=f.name, key="%s|to|%s" % (R, op))
    uo = [c for c in cs if c[1].endswith("Option::<T>::unwrap_or")]
    fb = len(uo) == 1 and uo[0][2][1] == "k:std::time::UNIX_EPOCH"
    if not uo:
        # the same fallback as a match: `None => UNIX_EPOCH` (the return place is given UNIX_EPOCH exactly where the checked result is None)
        for bl in f.blocks:
            if bl["cleanup"]:
                continue
            for st in bl["stmts"]:
                if st["lhs"]["l"] == 0 and not st["lhs"]["p"] and st["rhs"]["rv"] == "use" and S.val(st["rhs"]["ops"][0]) == "k:std::time::UNIX_EPOCH":
                    fa = [(e, tr) for (e, tr, g) in S.bool_facts_at(bl["id"]) if e.startswith("discr(") and tr == ("==", 0)]
                    fb = fb or bool(fa)
    ctx.check(fb, R, "to_system_time overflow fallback", "unwrap_or(UNIX_EPOCH)",
              "out-of-range results are not replaced by UNIX_EPOCH", f.loc(), fn=f.name)
    f = prog.fn(M + "duration_to_timestamp_delta")
    cs = symcalls(prog, f)
    mul = [c for c in cs if c[1].endswith("<impl u64>::saturating_mul")]
    add = [c for c in cs if c[1].endswith("<impl u64>::saturating_add")]
    ok = len(mul) == 1 and mul[0][2] == ["std::time::Duration::as_secs(&p1)", "c:10000000"] and len(add) == 1 and \
        add[0][2][1] == "((std::time::Duration::subsec_nanos(&p1) Div c:100) as u64)" and "saturating_mul" in add[0][2][0]
    ctx.check(ok, R, "duration_to_timestamp_delta", "secs*10^7 (saturating) + nanos/100 (saturating)",
              "delta is not as_secs().saturating_mul(10_000_000).saturating_add(subsec_nanos()/100): mul %s add %s" % (
                  [c[2] for c in mul], [c[2] for c in add]), f.loc(), fn=f.name)
    f = prog.fn(M + "timestamp_delta_to_duration")
    cs = symcalls(prog, f)
    dn = [c for c in cs if c[1].endswith("Duration::new")]
    ok = len(dn) == 1 and dn[0][2] == ["(p1 Div c:10000000)", "(((p1 Rem c:10000000) as u32) Mul! c:100).0"]
    ctx.check(ok, R, "timestamp_delta_to_duration", "Duration::new(d/10^7, (d%10^7)*100)",
              "duration is not Duration::new(delta / 10_000_000, (delta %% 10_000_000) * 100): %s" % [c[2] for c in dn], f.loc(), fn=f.name)
    # (de)serialisation width
    f = prog.fn(M + "Timestamp::read_from")
    g = prog.fn(M + "Timestamp::write_to")
    r = [t.get("written") or "" for b, t in f.calls() if "ReadBytesExt" in (t.get("callee") or "")]
    w = [t.get("written") or "" for b, t in g.calls() if "WriteBytesExt" in (t.get("callee") or "")]
    ctx.check(len(r) == 1 and "read_u64::<byteorder::LittleEndian>" in r[0] and len(w) == 1 and "write_u64::<byteorder::LittleEndian>" in w[0], R,
              "Timestamp is 8 bytes little-endian both ways", "", "Timestamp read %s / write %s" % (r, w), f.loc(), fn=f.name)
    # summary plumbing
    R2 = "TS-PROP"
    ctx.rule(R2, "set_creation_time stores FileTime(Timestamp::from_system_time(t)) under PROPERTY_CREATION_TIME (12) and creation_time reads the "
                 "same property through Timestamp::to_system_time")
    pid = prog.const("msi::internal::summary::PROPERTY_CREATION_TIME")["val"]
    ctx.check(pid == 12, R2, "PROPERTY_CREATION_TIME", str(pid), "creation-time property id is %s, the format uses 12" % pid)
    f = prog.fn("msi::internal::summary::SummaryInfo::set_creation_time")
    cs = symcalls(prog, f)
    st = [c for c in cs if c[1].endswith("PropertySet::set")]
    ok = len(st) == 1 and st[0][2][1] == "c:%d" % pid and "PropertyValue::FileTime{" in st[0][2][2] and "Timestamp::from_system_time" in st[0][2][2]
    if ok is False and len(st) == 1:
        ok = st[0][2][1] == "c:%d" % pid and "FileTime" in st[0][2][2]
    ctx.check(ok, R2, "set_creation_time", "", "set_creation_time does not store FileTime(from_system_time(t)) under property %d: %s" % (pid, [c[2] for c in st]), f.loc(), fn=f.name)
    f = prog.fn("msi::internal::summary::SummaryInfo::creation_time")
    cs = symcalls(prog, f)
    gt = [c for c in cs if c[1].endswith("PropertySet::get")]
    ts = [c for c in cs if c[1].endswith("Timestamp::to_system_time")]
    ctx.check(len(gt) == 1 and gt[0][2][1] == "c:%d" % pid and len(ts) == 1, R2, "creation_time", "",
              "creation_time does not read property %d through to_system_time" % pid, f.loc(), fn=f.name)
