"""LOOP-PROGRESS: every cycle of every loop reachable from the public API consumes from a finite source.

For each natural loop (MIR, non-cleanup edges) the rule removes the blocks whose terminator is a *consuming call*
(an iterator's `next`, or a fallible read from a byte reader, which fails at end of input) and requires that no cycle
through the loop header remains. A loop with a cycle that consumes nothing can spin forever on some input (a `continue`
placed before the read, a retry on an error kind the reader returns forever, a hand-rolled index loop whose increment is skipped).
Loops that make progress for another reason are listed in LOOP_JUSTIFIED with that reason."""
import re

from .. import cfg
from ..callgraph import CallGraph
from ..lib import cname
from .panic import _owner_name

CONSUME = re.compile(
    r"(Iterator>?::next$|Iterator>?::next_back$|::next$|::next_back$|DoubleEndedIterator>?::next_back$|"
    r"ReadBytesExt::read_[a-z0-9]+$|Read::read_exact$|Read>?::read_exact$|Iterator::nth$|"
    r"Vec::<T, A>::pop$|VecDeque::<T, A>::pop_front$|VecDeque::<T, A>::pop_back$|BinaryHeap::<T, A>::pop$)")

# owner function -> (callee suffix that makes progress, reason)
LOOP_JUSTIFIED = {
    "msi::internal::codepage::CodePage::encode": (
        "Encoder::encode_from_utf8_without_replacement",
        "encoding_rs consumes at least one input character per call when given a 1024-byte output buffer (no encoding needs more than 4 bytes per character "
        "plus a bounded escape), and the loop slices the input from the running total of consumed bytes; InputEmpty ends the loop"),
}


def consuming(prog, f, hdr_body):
    out = set()
    for b in hdr_body:
        t = f.blocks[b]["term"]
        if t["t"] == "call" and CONSUME.search(cname(prog, t)):
            out.add(b)
    return out | counters(f, hdr_body)


def counters(f, body):
    """blocks that step a counter (`i += k` / `i -= k`, k a positive constant) which an exit test of the loop reads"""
    from ..flow import derived_locals, const_int, op_local
    steps = {}  # temp -> counter local
    for b in body:
        for s in f.blocks[b]["stmts"]:
            r = s["rhs"]
            if r["rv"] == "bin" and r["op"] in ("AddWithOverflow", "SubWithOverflow", "Add", "Sub", "AddUnchecked", "SubUnchecked") and not s["lhs"]["p"]:
                x, k = op_local(r["ops"][0]), const_int(r["ops"][1])
                if x is not None and k is not None and k > 0:
                    steps[s["lhs"]["l"]] = x
    out = set()
    succs = f.succs()
    for b in body:
        for s in f.blocks[b]["stmts"]:
            r = s["rhs"]
            if r["rv"] != "use" or s["lhs"]["p"]:
                continue
            src = r["ops"][0].get("pl")
            if not src or src["l"] not in steps or steps[src["l"]] != s["lhs"]["l"]:
                continue
            ctr = s["lhs"]["l"]
            der = derived_locals(f, {ctr})
            for e in body:
                t = f.blocks[e]["term"]
                if t["t"] == "switch" and any(x not in body for x in succs[e]) and t["discr"].get("pl", {}).get("l") in der:
                    out.add(b)
    return out


def cycle_without(f, h, body, removed):
    """is h reachable from h inside body without entering `removed`?"""
    if h in removed:
        return False
    succs = f.succs()
    seen = set()
    st = [s for s in succs[h] if s in body and s not in removed]
    while st:
        b = st.pop()
        if b == h:
            return True
        if b in seen:
            continue
        seen.add(b)
        st.extend(s for s in succs[b] if s in body and s not in removed)
    return False


def run(ctx, entries, rule="LOOP-PROGRESS", floor=40):
    prog = ctx.prog
    ctx.rule(rule, "in every natural loop of every function reachable from the public API, each cycle through the loop header passes a call that consumes from a "
                   "finite source (Iterator::next of an in-memory or directory iterator, a fallible fixed-size read from the input, pop) — or the loop is listed "
                   "with the reason it makes progress; a cycle that consumes nothing can spin forever on some input")
    cg = CallGraph(prog)
    reach = cg.closure(entries)
    n = 0
    for fid in sorted(reach):
        f = prog.fns[fid]
        if f.crate == "cfb":
            continue
        loops = cfg.natural_loops(f)
        for h, body in sorted(loops.items()):
            n += 1
            owner = _owner_name(f)
            cons = consuming(prog, f, body)
            just = None
            if owner in LOOP_JUSTIFIED:
                suf, reason = LOOP_JUSTIFIED[owner]
                jb = {b for b in body if f.blocks[b]["term"]["t"] == "call" and cname(prog, f.blocks[b]["term"]).endswith(suf)}
                if jb:
                    cons = cons | jb
                    just = reason
            loc = f.loc(f.blocks[h]["term"].get("sp"))
            inst = "%s loop@%s" % (owner, _loop_tag(prog, f, body))
            if cycle_without(f, h, body, cons):
                ctx.violation(rule, inst, "a cycle through this loop passes no consuming call (consuming calls in the loop: %s): some input can keep it spinning" % (
                    sorted({cname(prog, f.blocks[b]["term"]).split("::")[-1] for b in cons}) or "none"), loc, fn=f.name,
                    path=cg.path(entries, f.id), key="%s|%s|%s" % (rule, owner, _loop_tag(prog, f, body)))
            elif just:
                ctx.justified(rule, inst, just, loc)
            else:
                ctx.ok(rule, inst, "every cycle passes %s" % sorted({cname(prog, f.blocks[b]["term"]).split("::")[-1] for b in cons}), loc)
    ctx.floor(rule, "natural loops reachable from the public API", n, floor)
    return n


def _loop_tag(prog, f, body):
    """line-free identity of a loop: the sorted set of distinct callee tails in its body (stable under reformatting)"""
    names = sorted({cname(prog, f.blocks[b]["term"]).split("::")[-1] for b in body if f.blocks[b]["term"]["t"] == "call"})
    return ",".join(names)[:80]
