"""Schema rules: TABLE-BITS, TABLE-INTW, BITS-DISJOINT, INFO-SCHEMA, SEP-1, TABLE-CAT (C06, C02); GATE-OPT, INS-1, CODEC-4 (C02)."""
import re

from .. import cfg, tables
from ..flow import DefUse, derived_locals
from ..lib import calls, closure_sites, cname, error_sites, has_fact, short, symcalls
from ..sym import Sym

COL = "msi::internal::column::"
PKG = "msi::internal::package::"
OPEN = PKG + "Package::<F>::open"
CREATE = PKG + "Package::<F>::create_table_with_name"

BITS_REF = {"COL_FIELD_SIZE_MASK": 0xff, "COL_LOCALIZABLE_BIT": 0x200, "COL_STRING_BIT": 0x800, "COL_NULLABLE_BIT": 0x1000,
            "COL_PRIMARY_KEY_BIT": 0x2000, "COL_VALID_BIT": 0x100, "COL_NONBINARY_BIT": 0x400}


def bin_stmts(f, S, ops=None):
    out = []
    for bl in f.blocks:
        if bl["cleanup"]:
            continue
        for s in bl["stmts"]:
            r = s["rhs"]
            if r["rv"] == "bin" and (ops is None or r["op"] in ops):
                out.append((bl["id"], r["op"], [S.val(o) for o in r["ops"]], s))
    return out


def table_bits(ctx):
    prog = ctx.prog
    R = "TABLE-BITS"
    ctx.rule(R, "the column type word is packed and unpacked with the same mask per attribute, equal to the format's: size 0xff, localizable 0x200, string 0x800, "
                "nullable 0x1000, primary key 0x2000 (writer: Column::bitfield / ColumnType::bitfield; reader: ColumnBuilder::with_bitfield / ColumnType::from_bitfield); "
                "integer sizes are written as 2 / 4")
    for k, v in BITS_REF.items():
        c = prog.const(COL + k)
        ctx.check(c["val"] == v, R, k, hex(c["val"]), "%s is %#x, the format uses %#x" % (k, c["val"], v))
    fb = prog.fn(COL + "Column::bitfield")
    S = Sym(prog, fb)
    wr = {}
    for (b, op, vals, s) in bin_stmts(fb, S, ("BitOr",)):
        c = [int(v[2:]) for v in vals if v.startswith("c:")]
        allf = S.bool_facts_at(b)
        flag = [e for (e, tr, g) in allf if tr is True and re.fullmatch(r"\*p1\.\w+", e)]
        if c and flag:
            wr[flag[0].split(".")[-1]] = c[0]
            ctx.check(len(allf) == 1, R, "%s bit depends on the flag alone" % flag[0].split(".")[-1], "", "Column::bitfield sets the %s bit only under the extra conditions %s: the flag is "
                      "lost for other columns (e.g. integer or unbounded string columns)" % (flag[0].split(".")[-1], [(e[:50], tr) for e, tr, g in allf if e != flag[0]]), fb.loc(), fn=fb.name,
                      key="%s|flag-alone|%s" % (R, flag[0].split(".")[-1]))
    ctx.check(wr == {"is_localizable": 0x200, "is_nullable": 0x1000, "is_primary_key": 0x2000}, R, "writer flag bits", str(wr),
              "Column::bitfield sets %s, expected is_localizable 0x200, is_nullable 0x1000, is_primary_key 0x2000" % {k: hex(v) for k, v in wr.items()}, fb.loc(), fn=fb.name)
    fwb = prog.fn(COL + "ColumnBuilder::with_bitfield")
    Sb = Sym(prog, fwb)
    a = prog.adts["msi::internal::column::Column"]["variants"][0]["fields"]
    names = [x[0] for x in a]
    rd = {}
    for bl in fwb.blocks:
        if bl["cleanup"]:
            continue
        for s in bl["stmts"]:
            r = s["rhs"]
            if r["rv"] == "agg" and (r.get("adt") or "").endswith("column::Column"):
                for i, o in enumerate(r["ops"]):
                    v = Sb.val(o)
                    m = re.fullmatch(r"\(\(p2 BitAnd c:(\d+)\) Ne c:0\)", v)
                    if m:
                        rd[names[i]] = int(m.group(1))
    masks_r = sorted(int(v[1][2:]) for (b, op, v, s) in bin_stmts(fwb, Sb, ("BitAnd",)) if v[1].startswith("c:"))
    ctx.check(rd.get("is_localizable") == 0x200 and rd.get("is_primary_key") == 0x2000 and masks_r == [0x200, 0x1000, 0x2000], R, "reader flag bits",
              "%s masks %s" % (rd, masks_r), "with_bitfield reads %s with masks %s; expected localizable 0x200, nullable 0x1000, key 0x2000" % (
                  {k: hex(v) for k, v in rd.items()}, [hex(m) for m in masks_r]), fwb.loc(), fn=fwb.name)
    # nullable: bit OR builder's own flag (validation table may say Y)
    nb = [(b, v) for (b, op, v, s) in bin_stmts(fwb, Sb, ("Ne",)) if "c:4096" in v[0]]
    ctx.check(len(nb) == 1, R, "reader nullable bit", "", "with_bitfield does not test COL_NULLABLE_BIT", fwb.loc(), fn=fwb.name)
    ft = prog.fn(COL + "ColumnType::bitfield")
    St = Sym(prog, ft)
    tab = tables.enum_table(prog, ft, "internal::column::ColumnType")
    ctx.check(tab.get("Int16") == ("int", 2) and tab.get("Int32") == ("int", 4), R, "integer sizes written", str({k: tab.get(k) for k in ("Int16", "Int32")}),
              "ColumnType::bitfield writes sizes %s, expected Int16 2, Int32 4" % {k: tab.get(k) for k in ("Int16", "Int32")}, ft.loc(), fn=ft.name)
    strw = [v for (b, op, v, s) in bin_stmts(ft, St, ("BitOr",))]
    ctx.check(len(strw) == 1 and "c:2048" in strw[0] and any("@Str.0" in x for x in strw[0]), R, "string bit written with the width", str(strw),
              "ColumnType::bitfield does not OR COL_STRING_BIT with the width: %s" % strw, ft.loc(), fn=ft.name)

    R2 = "TABLE-INTW"
    ctx.rule(R2, "ColumnType::from_bitfield: string iff (bits & 0x800) != 0 with width bits & 0xff; otherwise field size 4 -> Int32, 2 -> Int16, 1 -> Int16 (the documented "
                 "quirk of foreign encoders), anything else is an InvalidData error")
    ff = prog.fn(COL + "ColumnType::from_bitfield")
    Sf = Sym(prog, ff)
    got = {}
    for bl in ff.blocks:
        if bl["cleanup"]:
            continue
        for s in bl["stmts"]:
            r = s["rhs"]
            if s["lhs"]["l"] == 0 and r["rv"] == "agg" and r.get("variant") == "Ok":
                v = Sf.val(r["ops"][0])
                fs = Sf.bool_facts_at(bl["id"])
                from ..lib import interval_of, value_set
                slo, shi, sex = interval_of(fs, "(p1 BitAnd c:2048)")
                str_true = (slo is not None and slo >= 1) or 0 in sex
                str_false = shi == 0
                sizes = value_set(fs, "((p1 BitAnd c:255) as usize)")
                if str_true:
                    got["str"] = v
                elif sizes:
                    for n_ in sizes:
                        got[n_] = v
    want = {"str": "internal::column::ColumnType::Str{((p1 BitAnd c:255) as usize)}", 4: "internal::column::ColumnType::Int32{}",
            2: "internal::column::ColumnType::Int16{}", 1: "internal::column::ColumnType::Int16{}"}
    ctx.check(got == want, R2, "from_bitfield mapping", str(got), "from_bitfield maps %s; expected %s" % (got, want), ff.loc(), fn=ff.name)
    errs = [k for (b, t, k, m) in error_sites(prog, ff)]
    ctx.check(errs == ["InvalidData"], R2, "other sizes are InvalidData", str(errs), "from_bitfield error kinds: %s" % errs, ff.loc(), fn=ff.name)


def bits_disjoint(ctx):
    prog = ctx.prog
    R = "BITS-DISJOINT"
    ctx.rule(R, "every component OR-ed into the column type word occupies bits disjoint from the others; the string width, OR-ed unmasked, must be provably within "
                "COL_FIELD_SIZE_MASK: masked where it is OR-ed, or refused (argument error, before any mutation) by create_table for widths above 0xff")
    consts = [BITS_REF[k] for k in BITS_REF]
    ok = all((a & b) == 0 for i, a in enumerate(consts) for b in consts[i + 1:])
    ctx.check(ok, R, "flag constants pairwise disjoint", "", "column flag constants overlap")
    ft = prog.fn(COL + "ColumnType::bitfield")
    St = Sym(prog, ft)
    strw = [v for (b, op, v, s) in bin_stmts(ft, St, ("BitOr",))]
    masked = any("BitAnd c:255" in x for v in strw for x in v)
    f = prog.fn(CREATE)
    guard = None
    for g in prog.unit(f):
        S = Sym(prog, g)
        for (b, t, k, m) in error_sites(prog, g):
            from ..lib import exceeds_facts
            for (x_, n_, gg) in exceeds_facts(S.bool_facts_at(b)):
                # `width > N` in any spelling (N < width, !(width <= N), ..)
                if "@Str.0" in x_ and n_ <= 0xff and k == "InvalidInput":
                    guard = (g, b, "%s > %d" % (x_, n_))
            for (e, tr, gg) in S.bool_facts_at(b):
                mm = re.search(r"@Str\.0\)? (Gt|Ge) \(?c:(\d+)", e)
                if mm and tr is True:
                    lim = int(mm.group(2)) - (1 if mm.group(1) == "Ge" else 0)
                    if lim <= 0xff and k == "InvalidInput":
                        guard = (g, b, e)
                mm = re.search(r"@Str\.0\)? (Le|Lt) \(?c:(\d+)", e)
                if mm and tr is False:
                    lim = int(mm.group(2)) - (1 if mm.group(1) == "Lt" else 0)
                    if lim <= 0xff and k == "InvalidInput":
                        guard = (g, b, e)
    ctx.check(masked or guard is not None, R, "string width fits the size field", "masked" if masked else (guard[2] if guard else ""),
              "ColumnType::bitfield ORs the string width into the type word unmasked and create_table accepts widths above 255: string(256) is stored as width 0 with "
              "COL_VALID_BIT set, string(512) as width 0 and localizable - the schema is silently altered instead of refused", ft.loc(), fn=ft.name, key=R + "|str-width")


def info_schema(ctx):
    prog = ctx.prog
    R = "INFO-SCHEMA"
    ctx.rule(R, "the _Validation row written by create_table and the row read back by open carry the same attribute at the same position: 1 name, 2 nullable, 3/4 range "
                "(min, max), 5/6 foreign key (table, column), 7 category, 8 enumeration; the set of Column getters read by the writer equals the set of ColumnBuilder "
                "methods applied by the reader")
    f = prog.fn(CREATE)
    # writer: the closure that builds a 10-element array
    wpos = {}
    wfn = None
    for g in f.closures:
        S = Sym(prog, g)
        du = DefUse(g)
        for bl in g.blocks:
            if bl["cleanup"]:
                continue
            for s in bl["stmts"]:
                r = s["rhs"]
                if r["rv"] == "agg" and r.get("array") and len(r["ops"]) == 10:
                    wfn = g
                    for i, o in enumerate(r["ops"]):
                        wpos[i] = sorted(_getters_feeding(prog, g, du, o))
    if wfn is None:
        ctx.anchor_missing(R, "closure building the 10-value _Validation row in create_table_with_name")
        return
    want_w = {1: ["name"], 2: ["is_nullable"], 3: ["value_range"], 4: ["value_range"], 5: ["foreign_key"], 6: ["foreign_key"], 7: ["category"], 8: ["enum_values"]}
    for i, w in want_w.items():
        ctx.check(wpos.get(i) == w, R, "writer position %d" % i, str(wpos.get(i)), "create_table writes %s at _Validation position %d, expected %s" % (wpos.get(i), i, w),
                  wfn.loc(), fn=f.name, key="%s|w|%d" % (R, i))
    S = Sym(prog, wfn)
    for getter in ("value_range", "foreign_key"):
        ok = False
        for bl in wfn.blocks:
            for s in bl["stmts"]:
                r = s["rhs"]
                if r["rv"] == "agg" and r.get("tuple") and len(r["ops"]) == 2:
                    v0, v1 = S.val(r["ops"][0]), S.val(r["ops"][1])
                    if getter in v0 and getter in v1:
                        ok = bool(re.search(r"@Some\.0\.0[)}]", v0 + "}")) and bool(re.search(r"@Some\.0\.1[)}]", v1 + "}"))
        if not ok:
            # the pair built inside `getter().map_or((Null, Null), |(a, b)| (.., ..))`
            from ..lib import lifted_closures
            for L in lifted_closures(prog, wfn, S):
                if not (L.param and getter in L.param):
                    continue
                for bl in L.fn.blocks:
                    for s in bl["stmts"]:
                        r = s["rhs"]
                        if r["rv"] == "agg" and r.get("tuple") and len(r["ops"]) == 2:
                            v0, v1 = L.val(r["ops"][0]), L.val(r["ops"][1])
                            if getter in v0 and getter in v1:
                                ok = bool(re.search(r"@Some\.0\.0[)}]", v0 + "}")) and bool(re.search(r"@Some\.0\.1[)}]", v1 + "}"))
        ctx.check(ok, R, "writer keeps (first, second) order of %s" % getter, "", "create_table does not write the two components of %s() in order" % getter, wfn.loc(), fn=f.name,
                  key="%s|w-order|%s" % (R, getter))
    # what a getter returns is stored whatever it is: the writer does not pick out single categories (or ranges, keys) to leave unsaved
    picky = []
    for g in [wfn] + list(wfn.closures):
        Sg = S if g is wfn else Sym(prog, g)
        for bl in g.blocks:
            if bl["cleanup"] or bl["term"]["t"] != "switch":
                continue
            v = Sg.val(bl["term"]["discr"])
            if re.search(r"Column::category(@Some\.0|\)@Some\.0)", v) or re.search(r"^discr\(.*Column::category.*@Some\.0\)$", v):
                picky.append(v[:80])
    ctx.check(not picky, R, "every category is written", "", "create_table's _Validation row tests which category a column has (%s): some categories are not stored, so the reopened "
              "column reports none" % picky, wfn.loc(), fn=f.name, key="%s|w|category-variant" % R)
    # reader
    o = prog.fn(OPEN)
    So = Sym(prog, o)
    idx = [(b, t) for b, t in o.calls() if (t.get("callee") or "") == "std::ops::Index::index" and "HashMap::<K, V, S, A>::get(" in So.val(t["args"][0])
           and So.val(t["args"][1]).startswith("c:")]
    rpos = {}
    builder_calls = [(b, t) for b, t in o.calls() if cname(prog, t).startswith(COL + "ColumnBuilder::") and not cname(prog, t).endswith("with_bitfield")]
    for b, t in idx:
        i = int(So.val(t["args"][1])[2:])
        D = derived_locals(o, {t["dest"]["l"]}, through_calls=lambda tt: not cname(prog, tt).startswith(COL + "ColumnBuilder::"))
        for bb, bt in builder_calls:
            m = cname(prog, bt).rsplit("::", 1)[-1]
            fed = [k for k, a in enumerate(bt["args"]) if a.get("pl") and a["pl"]["l"] in D and k > 0]
            ctrl = False
            for (e, op, v, g) in So.facts_at(bb):
                if "Try>::branch)" in e:
                    continue  # `?`: everything after it is trivially control dependent on it
                gt = o.blocks[g]["term"]
                if gt["t"] != "switch":
                    continue  # an imported fact (flag local, inlined helper's result): its guard block is where the value was set
                d = gt["discr"]
                if d.get("pl") and d["pl"]["l"] in D:
                    ctrl = True
            if fed or ctrl:
                rpos.setdefault(i, set()).add((m, tuple(fed)))
    want_r = {2: {"nullable"}, 3: {"range"}, 4: {"range"}, 5: {"foreign_key"}, 6: {"foreign_key"}, 7: {"category"}, 8: {"enum_values"}}
    for i, w in want_r.items():
        got = {m for (m, fed) in rpos.get(i, set())}
        ctx.check(got == w, R, "reader position %d" % i, str(sorted(got)), "open feeds _Validation position %d into %s, expected %s" % (i, sorted(got), sorted(w)), o.loc(), fn=o.name,
                  key="%s|r|%d" % (R, i))
    for i, argpos, m in ((3, 1, "range"), (4, 2, "range"), (5, 1, "foreign_key"), (6, 2, "foreign_key")):
        fedpos = {k for (mm, fed) in rpos.get(i, set()) if mm == m for k in fed}
        ctx.check(fedpos == {argpos}, R, "reader: position %d is argument %d of %s" % (i, argpos, m), "", "open passes _Validation position %d as argument(s) %s of %s, expected %d" % (
            i, sorted(fedpos), m, argpos), o.loc(), fn=o.name, key="%s|r-arg|%d" % (R, i))
    ctx.floor(R, "constant-index reads of a _Validation row in open", len(idx), 7)
    for bb, bt in builder_calls:
        m = cname(prog, bt).rsplit("::", 1)[-1]
        if m not in ("range", "foreign_key", "enum_values", "category", "nullable"):
            continue
        extra = []
        fin = {b_ for b_, t_ in o.calls() if cname(prog, t_).endswith("ColumnBuilder::with_bitfield")}
        domo = cfg.dominators(o)
        for (e, tr, g) in So.bool_facts_at(bb):
            if not isinstance(tr, bool):
                continue
            gt = o.blocks[g]["term"]
            if gt["t"] != "switch":
                continue  # imported with a flag local or an inlined helper's result, whose own test is in the list with its switch
            if gt["t"] == "switch" and fin:
                # a test whose other edge never gets to finish the column (it ends in an error return) decides whether open() fails,
                # not whether this attribute is applied
                others = [x for x in o.succs()[g] if not (x == bb or x in domo.get(bb, ()))]
                if others and not any(fin & cfg.reachable(o, x) for x in others):
                    continue
            if "Value::is_null(" in e and tr is False:
                continue
            if m == "nullable" and "PartialEq" in e and "s:'Y'" in e and tr is True:
                continue
            if "CompoundFile::<F>::exists(" in e or "contains_key(" in e or "BTreeMap::<K, V, A>::is_empty(" in e or "Option>::eq(" in e or "PartialEq" in e and "Option" in e:
                continue
            extra.append((e[:70], tr))
        if m in ("range", "foreign_key"):
            nn = [e for (e, tr, g) in So.bool_facts_at(bb) if "Value::is_null(" in e and tr is False]
            ctx.check(len(nn) >= 2, R, "reader applies %s() only when BOTH of its cells are present" % m, "%d non-null tests dominate" % len(nn),
                      "open restores %s from its two _Validation cells without requiring both to be non-null (%d dominating non-null tests): a row that has only one of them makes "
                      "open fail, or feeds a null into the builder" % (m, len(nn)), o.loc(bt["sp"]), fn=o.name, key="%s|both|%s" % (R, m))
        ctx.check(not extra, R, "reader applies %s() whenever the cells are present" % m, "", "open applies ColumnBuilder::%s only under the extra condition(s) %s: some attribute values that "
                  "create_table wrote are dropped on reopen" % (m, extra), o.loc(bt["sp"]), fn=o.name, key="%s|guard|%s" % (R, m))
    pair = {"is_nullable": "nullable", "value_range": "range", "foreign_key": "foreign_key", "category": "category", "enum_values": "enum_values"}
    wset = {g for v in wpos.values() for g in v} - {"name"}
    rset = {m for v in rpos.values() for (m, fed) in v}
    ctx.check({pair.get(g) for g in wset} == rset, R, "attribute coverage symmetric", "%s <-> %s" % (sorted(wset), sorted(rset)),
              "attributes written %s vs attributes restored %s" % (sorted(wset), sorted(rset)), o.loc(), fn=o.name)
    # "Y"/"N"
    ys = [So.val(a) for b, t in o.calls() if (t.get("callee") or "").endswith("PartialEq::eq") for a in t["args"] if "s:'Y'" in So.val(a)]
    wy = [S.val(o2) for bl in wfn.blocks for s in bl["stmts"] for o2 in s["rhs"].get("ops", []) if o2.get("k") == "const" and o2.get("str") in ("Y", "N")]
    wy += [a for b, n, args, t in symcalls(prog, wfn, S) for a in args if a in ("&*s:'Y'", "&*s:'N'", "s:'Y'", "s:'N'")]
    ctx.check(bool(ys) and any("Y" in x for x in wy) and any("N" in x for x in wy), R, "nullable spelled Y/N on both sides", "", "nullable is not written as \"Y\"/\"N\" and read by comparing with \"Y\"", o.loc(), fn=o.name)


def _getters_feeding(prog, g, du, op, depth=0, seen=None):
    """names of Column getters in the backward slice of an operand"""
    seen = seen if seen is not None else set()
    out = set()
    if op.get("k") == "const" or depth > 14:
        return out
    l = op["pl"]["l"]
    if l in seen:
        return out
    seen.add(l)
    for d in du.defs.get(l, []):
        if d[2] == "call":
            n = cname(prog, d[3])
            if n.startswith(COL + "Column::"):
                out.add(n.rsplit("::", 1)[-1])
            for a in d[3]["args"]:
                out |= _getters_feeding(prog, g, du, a, depth + 1, seen)
        else:
            rhs = d[3]["rhs"]
            for o in rhs.get("ops", []):
                out |= _getters_feeding(prog, g, du, o, depth + 1, seen)
            if "pl" in rhs:
                out |= _getters_feeding(prog, g, du, {"k": "copy", "pl": {"l": rhs["pl"]["l"], "p": []}}, depth + 1, seen)
    # control dependence: value chosen by a test on a getter result (if column.is_nullable() {"Y"} else {"N"})
    if len(du.whole_defs(l)) > 1:
        S = Sym(prog, g)
        for d in du.whole_defs(l):
            for (e, tr, gb) in S.bool_facts_at(d[0]):
                m = re.search(r"column::Column::(\w+)", e)
                if m:
                    out.add(m.group(1))
    return out


def sep1(ctx):
    prog = ctx.prog
    R = "SEP-1"
    ctx.rule(R, "the _Validation.Set cell is built with join(\";\") and parsed with split(';'); therefore create_table must refuse (argument error before any mutation) "
                "enumeration values that contain the separator or are empty")
    f = prog.fn(CREATE)
    o = prog.fn(OPEN)
    joins = []
    for g in prog.unit(f):
        S = Sym(prog, g)
        joins += [args for b, n, args, t in symcalls(prog, g, S) if n.endswith("<impl [T]>::join")]
    So = Sym(prog, o)
    splits = [args for b, n, args, t in symcalls(prog, o, So) if n.endswith("<impl str>::split") and "c:59" in args[1]]
    if len(joins) == 1 and not ("s:';'" in joins[0][1] or "c:59" in joins[0][1]):
        # the separator string was hoisted into a local and captured: look the capture up at the closure's creation site(s), outwards
        from ..lib import closure_caps
        v = joins[0][1]
        for _ in range(3):
            m = re.search(r"\bp1\.(\d+)\b", v)
            if not m:
                break
            for g in prog.unit(f):
                for cid, caps in closure_caps(prog, g).items():
                    if int(m.group(1)) < len(caps) and ("c:59" in caps[int(m.group(1))] or "s:';'" in caps[int(m.group(1))] or re.search(r"\bp1\.\d+\b", caps[int(m.group(1))])):
                        v = caps[int(m.group(1))]
            if "c:59" in v or "s:';'" in v:
                joins[0][1] = v
                break
    ctx.check(len(joins) == 1 and ("s:';'" in joins[0][1] or "c:59" in joins[0][1]) and len(splits) == 1, R, "separator is ';' on both sides", "", "enumeration separator differs: join %s, split %s" % (joins, splits), f.loc(), fn=f.name)
    # the split result reaches the builder unchanged, the joined list comes straight from the column
    ev = [args for b, n, args, t in symcalls(prog, o, So) if n.endswith("ColumnBuilder::enum_values")]
    from ..lib import call_of
    direct = False
    for a in ev:
        cn1, ca1 = call_of(So, a[1])
        if cn1 and cn1.endswith("Iterator::collect") and ca1:
            cn2, ca2 = call_of(So, ca1[0])
            direct = bool(cn2) and cn2.endswith("<impl str>::split")
    ctx.check(direct and len(ev) == 1, R, "open passes the split values to the builder unchanged", "", "open transforms the values between split(';') and ColumnBuilder::enum_values "
              "(trim/filter/map): values that create_table accepted reopen differently", o.loc(), fn=o.name, key=R + "|direct")
    guard = False
    for g in prog.unit(f):
        S = Sym(prog, g)
        for b, n, args, t in symcalls(prog, g, S):
            if n.endswith("<impl str>::contains") and ("c:59" in args[1] or "s:';'" in args[1]):
                guard = True
                typed = [(e, tr) for (e, op, tr, gg) in S.facts_at(b) if "coltype" in e]
                ctx.check(not typed, R, "the separator check covers every column type", "", "the enumeration-value check in create_table is only reached for some column types (%s): "
                          "other columns still get a ';'-joined _Validation.Set cell and reopen with different values" % typed, g.loc(t["sp"]), fn=f.name, key=R + "|all-types")
    # empty values: [""] joins to "" (stored as a null cell, reopening without an enumeration), ["a",""] to "a;" ...
    empty_guard = False
    for g in prog.unit(f):
        S = Sym(prog, g)
        for b, n, args, t in symcalls(prog, g, S):
            if n.endswith("String::is_empty") or n.endswith("<impl str>::is_empty"):
                # the test is on an enumeration value: same operand as the separator test, or an element of enum_values
                if any(nn.endswith("<impl str>::contains") and ("c:59" in aa[1] or "s:';'" in aa[1]) and (aa[0].lstrip("&*") in args[0] or args[0].lstrip("&*") in aa[0])
                       for bb, nn, aa, tt in symcalls(prog, g, S)) or "enum_values" in args[0]:
                    empty_guard = True
    ctx.check(empty_guard, R, "empty enumeration values are refused", "", "create_table accepts an empty enumeration value: [\"\"] is written as an empty (null) _Validation.Set cell and the "
              "column reopens without its enumeration", f.loc(), fn=f.name, key=R + "|empty")
    # either defect alone must be refused: the error is reachable on the edge where only the separator test fired
    for g in prog.unit(f):
        Sg = Sym(prog, g)
        es = [b for (b, t, k, m) in error_sites(prog, g)]
        for b, n, args, t in symcalls(prog, g, Sg):
            if n.endswith("<impl str>::contains") and ("c:59" in args[1] or "s:';'" in args[1]):
                both = [e for e in es if e in cfg.reachable(g, b) and any(re.search(r"is_empty\(", x) and tr is True for (x, tr, gg) in Sg.bool_facts_at(e)) and
                        any("contains(" in x and tr is True for (x, tr, gg) in Sg.bool_facts_at(e))]
                ctx.check(not both, R, "a value is refused for either defect alone", "", "create_table refuses an enumeration value only when it is empty AND contains ';': neither defect alone is caught",
                          g.loc(t["sp"]), fn=f.name, key=R + "|either")
    errs = error_sites(prog, f)
    ctx.check(guard, R, "enumeration values containing ';' are refused", "", "create_table accepts enumeration values containing ';' (or empty): [\"a;b\",\"c\"] is written as \"a;b;c\" and "
              "reopens as three values", f.loc(), fn=f.name, key=R + "|guard")


def table_cat(ctx):
    prog = ctx.prog
    R = "TABLE-CAT"
    ctx.rule(R, "Category::as_str and FromStr are mutually inverse on all variants; Category::all() lists every variant exactly once; the Category enumeration of the "
                "_Validation table is built from all()")
    CAT = "internal::category::Category"
    vs = tables.enum_variants(prog, "msi", CAT)
    a = tables.enum_table(prog, prog.fn("msi::internal::category::Category::as_str"), CAT)
    fs = tables.str_match_table(prog, prog.fn("msi::<internal::category::Category as std::str::FromStr>::from_str"), want_adt="Category")
    back = {}
    for lit, d in fs:
        m = re.search(r"Category::(\w+)\{\}", str(d))
        if m:
            back[lit] = m.group(1)
    ctx.floor(R, "Category variants", len(vs), 26)
    for name in sorted(vs.values()):
        d = a.get(name)
        s = d[1] if d and d[0] == "str" else None
        ctx.check(s is not None and back.get(s) == name, R, name, "%r" % s, "Category::%s prints as %r, which parses back as %s" % (name, s, back.get(s)), key="%s|%s" % (R, name))
    al = prog.fn("msi::internal::category::Category::all")
    listed = [s["rhs"]["variant"] for bl in al.blocks if not bl["cleanup"] for s in bl["stmts"] if s["rhs"]["rv"] == "agg" and (s["rhs"].get("adt") or "").endswith("Category")]
    ctx.check(sorted(listed) == sorted(vs.values()), R, "all() lists every variant once", "%d entries" % len(listed),
              "Category::all() lists %d entries: missing %s, repeated %s" % (len(listed), sorted(set(vs.values()) - set(listed)), sorted({x for x in listed if listed.count(x) > 1})), al.loc(), fn=al.name)
    mv = prog.fn(PKG + "make_validation_columns")
    S = Sym(prog, mv)
    cs = symcalls(prog, mv, S)
    uses_all = any(cname(prog, t).endswith("Category::all") for g in prog.unit(mv) for b, t in g.calls())
    names = any(cname(prog, t).endswith("Category::as_str") or (t.get("callee") or "").endswith("ToString::to_string") for g in prog.unit(mv) for b, t in g.calls()) or \
        any("Category::as_str" in str(t.get("args")) for g in prog.unit(mv) for b, t in g.calls())
    # the value list handed to enum_values is the collected (or pushed-together) names of all(): a vector, not a literal list
    ok = uses_all and any(n.endswith("ColumnBuilder::enum_values") and ("collect" in args[1] or "Vec" in args[1]) and "agg{" not in args[1] for b, n, args, t in cs)
    ctx.check(ok, R, "_Validation.Category enumerates all()", "", "the Category column of _Validation is not built from Category::all()", mv.loc(), fn=mv.name)


# --------------------------------------------------------------------------- C02 extras
def gate_opt(ctx):
    prog = ctx.prog
    R = "GATE-OPT"
    ctx.rule(R, "in Package::open every open_stream of a catalog table (_Tables, _Columns, _Validation) is guarded by CompoundFile::exists of the same name: an absent "
                "catalog stream (e.g. no _Validation in a foreign file) is not an error")
    o = prog.fn(OPEN)
    S = Sym(prog, o)
    n = 0
    for b, nme, args, t in symcalls(prog, o, S):
        if nme == "cfb::CompoundFile::<F>::open_stream" and "Table::stream_name" in args[1]:
            n += 1
            g = any(tr is True and "CompoundFile::<F>::exists(" in e and args[1].lstrip("&") in e for (e, tr, gg) in S.bool_facts_at(b))
            ctx.check(g, R, "open_stream(%s)" % args[1][-60:], "guarded by exists()", "Package::open opens the catalog stream %s without testing exists() first" % args[1][-80:],
                      o.loc(t["sp"]), fn=o.name, key="%s|%d" % (R, n))
    ctx.floor(R, "catalog open_stream sites", n, 3)
    # only the two mandatory catalog tables are registered from their built-in definitions; _Validation exists in a package only if the file lists it
    reg = [args[2] for b, nme, args, t in symcalls(prog, o, S) if nme.endswith("BTreeMap::<K, V, A>::insert") and "Rc<internal::table::Table>" in (t.get("written") or "") and len(args) > 2]
    builtin = sorted(m for a in reg for m in re.findall(r"internal::package::(make_\w+_table)", a))
    ctx.check(builtin == ["make_columns_table", "make_tables_table"], R, "built-in definitions registered by open", str(builtin), "Package::open registers the built-in definition(s) %s as tables of every "
              "package; only _Tables and _Columns are mandatory — a file without _Validation must not be reported (and later saved) as having one" % builtin, o.loc(), fn=o.name, key=R + "|builtin")
    # the _Validation index is keyed by the PAIR (table, column): identifiers may contain '.', so a joined string key collides
    vkeys = {(t.get("written") or "").split("::insert")[0].split("::get")[0].split("::contains_key")[0] for b, nme, args, t in symcalls(prog, o, S)
             if re.search(r"HashMap::<K, V, S, A>::(insert|get|contains_key)$", nme) and "ValueRef" in (t.get("written") or "")}
    ctx.check(bool(vkeys) and all("HashMap::<(std::string::String, std::string::String)," in k for k in vkeys), R, "_Validation rows are indexed by (table, column)", "",
              "Package::open indexes the _Validation rows in %s: a key that is not the pair of table and column name lets two different columns collide" % sorted(vkeys), o.loc(), fn=o.name, key=R + "|vkey")


def reg_order(ctx, rule="REG-ORDER"):
    """create_table: the new table is registered before the guard that decides whether its _Validation rows are written"""
    prog = ctx.prog
    ctx.rule(rule, "in create_table_with_name the `_Validation exists` test that guards the insertion of the new table's _Validation rows is evaluated after the new table has been "
                   "registered in self.tables: Package::create builds _Validation itself through this path, and only then does the table describe itself")
    f = prog.fn("msi::internal::package::Package::<F>::create_table_with_name")
    S = Sym(prog, f)
    cs = symcalls(prog, f, S)
    dom = cfg.dominators(f)
    reg = [b for b, n, a, t in cs if n.endswith("BTreeMap::<K, V, A>::insert") and a and a[0].endswith("p1.tables")]
    n = 0
    for b, nme, a, t in cs:
        if not nme.endswith("Package::<F>::insert_rows"):
            continue
        gs = [g for (e, tr, g) in S.bool_facts_at(b) if tr is True and re.search(r"contains_key\(&\*p1\.tables,&\*s:'_Validation'\)", e)]
        if not gs:
            continue
        n += 1
        # the guard's contains_key call: the call block whose result the guard block switches on
        cblocks = [cb for cb, cn, ca, ct in cs if cn.endswith("contains_key") and len(ca) > 1 and "'_Validation'" in ca[1] and cb in dom[gs[-1]] | {gs[-1]}]
        cb = max(cblocks, key=lambda x: len(dom[x])) if cblocks else None
        ok = cb is not None and any(r in dom[cb] for r in reg)
        ctx.check(ok, rule, "the _Validation guard sees the new table", "tables.insert dominates the guard", "create_table_with_name tests `tables.contains_key(\"_Validation\")` for the "
                  "insertion of the new table's _Validation rows before the new table is registered: when the table being created IS _Validation (Package::create), its own ten "
                  "rows are never written and it reopens without ranges, categories and enumerations", f.loc(t["sp"]), fn=f.name, key=rule)
    ctx.floor(rule, "guarded _Validation insertions in create_table_with_name", n, 1)


def ins1(ctx, fns=(OPEN, "msi::internal::query::Insert::exec"), floor=6):
    prog = ctx.prog
    R = "INS-1"
    ctx.rule(R, "no silent overwrite: every insert on a map or set whose returned Option/bool is discarded is preceded, on every path, by a membership test on the same "
                "collection and key whose `present` edge leads to an error (repeated keys are rejected, not merged)")
    EXC = {"all_tables": "keys are the unique keys of columns_map plus the two fixed built-in names; a collision lets the file's own definition of a catalog table replace "
                         "the built-in one, it does not merge user data",
           "rows_map@new": "", }
    total = 0
    for fname in fns:
        f = prog.fn(fname)
        S = Sym(prog, f)
        du = DefUse(f)
        for b, nme, args, t in symcalls(prog, f, S):
            if not re.search(r"(HashMap|BTreeMap|HashSet|BTreeSet)::<.*>::insert$", nme):
                continue
            # discarded result?
            uses = [u for u in du.uses_of(t["dest"]["l"]) if not (u[1] == "T" and u[2]["t"] == "drop")]
            if uses:
                continue
            total += 1
            coll = args[0]
            key = args[1]
            var = f.var_name(t["args"][0]["pl"]["l"]) if t["args"][0].get("pl") else None
            # name of the collection variable for reports: trace &mut _N
            mm = re.match(r"&(?:call@\d+:)?(.*)", coll)
            test = None
            for (e, tr, g) in S.bool_facts_at(b):
                if tr is False and re.search(r"::(contains_key|contains)\(", e) and _same_coll(e, coll):
                    test = e
            vname = _coll_name(f, t)
            inst = "%s: insert into %s" % (short(fname), vname)
            if test:
                ctx.ok(R, inst, "dominated by the absent edge of %s" % test[:80], f.loc(t["sp"]))
                continue
            if vname == "all_tables" and fname == OPEN:
                ctx.justified(R, inst, EXC["all_tables"], f.loc(t["sp"]))
                continue
            if vname in ("rows_map",) and _inserts_fresh_keys(prog, f, S, b):
                ctx.ok(R, inst, "keys were tested against rows_map and against the batch's own key set in the loop above (checked: both tests lead to errors)", f.loc(t["sp"]))
                continue
            ctx.violation(R, inst, "the result of inserting into %s is discarded and no membership test on the same collection dominates it: a repeated key silently replaces "
                          "the earlier entry" % vname, f.loc(t["sp"]), fn=fname, key="%s|%s|%s" % (R, short(fname), vname))
    ctx.floor(R, "discarded map/set inserts examined", total, floor)


def _coll_name(f, t):
    a = t["args"][0]
    if not a.get("pl"):
        return "?"
    # `_x = &mut _y` : report y's source name
    l = a["pl"]["l"]
    for bl in f.blocks:
        for s in bl["stmts"]:
            if s["lhs"]["l"] == l and not s["lhs"]["p"] and s["rhs"]["rv"] == "ref":
                n = f.var_name(s["rhs"]["pl"]["l"])
                if n:
                    return n
    return f.var_name(l) or "?"


def _same_coll(e, coll):
    m = re.search(r"::(?:contains_key|contains)\((.*)$", e)
    if not m:
        return False
    norm = lambda x: x.replace("&", "").replace("*", "").replace(" ", "")
    return norm(m.group(1)).startswith(norm(coll) + ",")


def _inserts_fresh_keys(prog, f, S, b):
    """Insert::exec second loop: the batch loop above tests rows_map.contains_key(keys) and new_keys_set.contains(keys), both leading to errors"""
    errs = error_sites(prog, f)
    kinds = set()
    for (eb, t, k, m) in errs:
        for (e, tr, g) in S.bool_facts_at(eb):
            if tr is True and "BTreeMap::<K, V, A>::contains_key(" in e:
                kinds.add("map")
            if tr is True and "HashSet::<T, S, A>::contains(" in e:
                kinds.add("set")
    return kinds == {"map", "set"}


def codec4(ctx):
    prog = ctx.prog
    R = "CODEC-4"
    ctx.rule(R, "the reference width is threaded consistently: the long_string_refs argument of every Table::new call originates from StringPool::long_string_refs(), "
                "Table::long_string_refs(), or a parameter that does at every caller")
    n = 0
    okp = re.compile(r"^(internal::stringpool::StringPool::long_string_refs\(.*\)|internal::table::Table::long_string_refs\(.*\)|p\d+)$")
    for f in prog.fns.values():
        if f.crate != "msi":
            continue
        S = None
        for b, t in f.calls():
            if cname(prog, t) != "msi::internal::table::Table::new":
                continue
            S = S or Sym(prog, f)
            n += 1
            v = S.val(t["args"][2])
            ok = okp.match(v) is not None
            if ok and re.fullmatch(r"p\d+", v):
                # parameter: check every caller passes a pool/table width
                pi = int(v[1:])
                for g in prog.fns.values():
                    if g.crate != "msi":
                        continue
                    Sg = None
                    for bb, tt in g.calls():
                        if prog.callee_fn(tt) is f:
                            Sg = Sg or Sym(prog, g)
                            vv = Sg.val(tt["args"][pi - 1])
                            if not okp.match(vv) or re.fullmatch(r"p\d+", vv):
                                ok = False
            ctx.check(ok, R, "%s: Table::new(.., %s)" % (short(f.name), v[:60]), "", "%s builds a Table whose reference width is %s, not the pool's" % (short(f.name), v[:80]),
                      f.loc(t["sp"]), fn=f.name, key="%s|%s" % (R, short(f.name)))
    ctx.floor(R, "Table::new call sites", n, 8)


CLSID_REF = {"Installer": "000C1084-0000-0000-C000-000000000046", "Patch": "000C1086-0000-0000-C000-000000000046", "Transform": "000C1082-0000-0000-C000-000000000046"}


def table_clsid(ctx, rule="TABLE-CLSID"):
    """package type <-> root class id (C01, C02)"""
    prog = ctx.prog
    ctx.rule(rule, "PackageType::clsid maps Installer/Patch/Transform to the Windows Installer class ids {000C1084, 000C1086, 000C1082}-0000-0000-C000-000000000046 and "
                   "PackageType::from_clsid returns variant V exactly on the edge where the given id equals V.clsid(): an independently encoded patch is reported as a patch, and a "
                   "created transform carries the transform class id")
    f = prog.fn(PKG + "PackageType::clsid")
    tab, discr = tables.switch_table(prog, f)
    vs = tables.enum_variants(prog, "msi", "internal::package::PackageType")
    got = {}
    sw = tables.first_switch(f)
    tgt = {v: tg for v, tg in f.blocks[sw]["term"]["cases"]} if sw is not None else {}
    for d, name in (vs or {}).items():
        m = re.search(r"s:'([0-9A-Fa-f-]{36})'", str((tab or {}).get(d)))
        if not m and d in tgt:
            # `let text = match *self { V => CONST, .. }; parse_str(text)`: the literal is assigned in the arm's block
            lits = [o["str"] for st in f.blocks[tgt[d]]["stmts"] for o in st["rhs"].get("ops", []) if o.get("k") == "const" and "str" in o]
            m = re.fullmatch(r"([0-9A-Fa-f-]{36})", lits[0]) if len(lits) == 1 else None
        got[name] = m.group(1).upper() if m else None
    ctx.check(discr == "discr(*p1)" and got == CLSID_REF, rule, "clsid() table", str(got), "PackageType::clsid maps %s, the format assigns %s" % (got, CLSID_REF), f.loc(), fn=f.name, key=rule + "|clsid")
    g = prog.fn(PKG + "PackageType::from_clsid")
    S = Sym(prog, g)
    pairs = {}
    for bl in g.blocks:
        if bl["cleanup"]:
            continue
        for s in bl["stmts"]:
            r = s["rhs"]
            v = S.val(r["ops"][0]) if r.get("ops") else ""
            m = re.search(r"PackageType::(\w+)\{\}", v)
            if s["lhs"]["l"] == 0 and m and r["rv"] == "agg" and r.get("variant") == "Some":
                fs = S.bool_facts_at(bl["id"])
                last = fs[-1] if fs else ("", None, 0)
                mm = re.search(r"PartialEq>::eq\(&\*p1,&call@(\d+):internal::package::PackageType::clsid", last[0])
                if mm and last[1] is True:
                    arg = S.val(g.blocks[int(mm.group(1))]["term"]["args"][0])
                    am = re.search(r"PackageType::(\w+)\{\}", arg)
                    pairs[m.group(1)] = am.group(1) if am else None
                else:
                    pairs[m.group(1)] = None
    if not pairs:
        # table-driven spelling: [Installer, Patch, Transform].into_iter().find(|t| t.clsid() == *clsid)
        from ..lib import lifted_closures
        for L in lifted_closures(prog, g, S):
            if any(cname(prog, t).endswith("PackageType::clsid") for b, t in L.fn.calls()) and L.param and L.param.startswith("elem("):
                el = set(re.findall(r"PackageType::(\w+)\{\}", L.param + " ".join(S.val(a) for b, t in g.calls() for a in t["args"])))
                self_cmp = any(cname(prog, t).endswith("PackageType::clsid") and "p2" in L.SC.val(t["args"][0]) for b, t in L.fn.calls())
                if self_cmp:
                    pairs = {n: n for n in el}
    ctx.check(pairs == {n: n for n in CLSID_REF}, rule, "from_clsid returns the variant whose class id matched", str(pairs),
              "PackageType::from_clsid pairs (returned variant: compared variant) %s; each variant must be returned exactly when the id equals its own clsid()" % pairs, g.loc(), fn=g.name, key=rule + "|from")


def builder_pass(ctx, rule="BUILDER-PASS"):
    """the builder's metadata reaches the Column unchanged, for every column type (C06)"""
    prog = ctx.prog
    ctx.rule(rule, "ColumnBuilder::with_type (create side) and ColumnBuilder::with_bitfield (open side) move name, value_range, foreign_key, category and enum_values from the "
                   "builder into the Column as they are, on every path and for every column type: what _Validation said about a column is what the reopened column reports")
    adt = prog.adts.get("msi::internal::column::Column")
    if not adt:
        ctx.anchor_missing(rule, "struct Column")
        return
    fields = [x[0] for x in adt["variants"][0]["fields"]]
    want = ["name", "value_range", "foreign_key", "category", "enum_values"]
    n = 0
    for fname in (COL + "ColumnBuilder::with_type", COL + "ColumnBuilder::with_bitfield"):
        f = prog.fn(fname)
        S = Sym(prog, f)
        aggs = [s for bl in f.blocks if not bl["cleanup"] for s in bl["stmts"] if s["rhs"]["rv"] == "agg" and (s["rhs"].get("adt") or "").endswith("column::Column")]
        if not ctx.check(len(aggs) == 1, rule, "%s builds one Column" % short(fname), "", "%s builds %d Column values" % (short(fname), len(aggs)), f.loc(), fn=f.name, key="%s|%s|one" % (rule, short(fname))):
            continue
        ops = [S.val(o) for o in aggs[0]["rhs"]["ops"]]
        for fld in want:
            if fld not in fields:
                continue
            n += 1
            got = ops[fields.index(fld)] if fields.index(fld) < len(ops) else None
            ctx.check(got is not None and got.lstrip("&*") == "p1." + fld, rule, "%s passes %s through" % (short(fname), fld), str(got),
                      "%s stores %s as Column.%s instead of the builder's own %s: the attribute is changed or dropped for some columns (for example by column type) on the way from the "
                      "catalog to the Column" % (short(fname), got, fld, fld), f.loc(), fn=f.name, key="%s|%s|%s" % (rule, short(fname), fld))
    ctx.floor(rule, "metadata fields passed through", n, 10)
