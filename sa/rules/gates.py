"""GATE rules: validation dominates evaluation / mutation (C05, C07, C11, C12)."""
import re

from .. import cfg
from ..lib import calls, closure_sites, cname, error_sites, short, symcalls
from ..sym import Sym

EVAL = "msi::internal::expr::Expr::eval"


def _anchor_in_owner(prog, f, block):
    """for a site inside a closure return (owner fn, block in owner that builds the outermost enclosing closure)"""
    while f.kind == "Closure":
        owner = None
        # the direct creator: search all fns/closures of the unit for the aggregate
        top = f.owner
        for g in [top] + top.closures:
            for b, c in closure_sites(prog, g):
                if c is f:
                    owner = (g, b)
        if owner is None:
            return None, None
        f, block = owner
    return f, block


def _validation(prog, f, S, anchor, dom):
    """a name-validation prefix dominating `anchor`: column_names() call whose names are tested with has_column /
    index_for_column_name, failing edge leading to an error return. Returns description or None."""
    errs = {b for (b, t, k, m) in error_sites(prog, f)}
    cn = []
    for b, t in calls(prog, f, r"^msi::internal::expr::Expr::column_names$"):
        # must-pass: every entry->anchor path goes through b, or through the None edge of the Option test that guards b
        avoid = {b}
        for (e, op, val, g) in S.facts_at(b):
            if e.startswith("discr(") and op == "==" and val == 1:
                for blk in f.blocks:
                    tt = blk["term"]
                    if not blk["cleanup"] and tt["t"] == "switch" and S.val(tt["discr"]) == e:
                        some = {tgt for v, tgt in tt["cases"] if v == 1}
                        for tgt in f.succs()[blk["id"]]:
                            if tgt not in some:
                                avoid.add(tgt)
        if anchor in avoid or anchor not in cfg.reachable(f, 0, avoid=avoid):
            cn.append(b)
    if not cn:
        return None
    tests = calls(prog, f, r"^msi::internal::table::Table::(has_column|index_for_column_name)$")
    for c in cn:
        from_c = cfg.reachable(f, c)
        for hb, ht in tests:
            if hb not in from_c:
                continue
            if anchor not in cfg.reachable(f, hb):
                continue
            # switch on the test result right after the call; one edge must reach an error source without passing the anchor
            nb = ht["succ"][0]
            r = cfg.reachable(f, nb, avoid={anchor})
            if r & errs:
                return "column_names() in bb%d, %s in bb%d with an error edge" % (c, cname(prog, ht).rsplit("::", 1)[-1], hb)
    return None


def gate_eval(ctx, rule="GATE-EVAL"):
    prog = ctx.prog
    ctx.rule(rule, "every internal call of Expr::eval is dominated (directly, or at the construction of the closure that performs it) by a "
                   "validation prefix in the same function: Expr::column_names() on the expression, each name tested with Table::has_column / "
                   "index_for_column_name, failing edge leading to an error return — so Row's by-name index panic is unreachable")
    n = 0
    for f in prog.fns.values():
        if f.crate != "msi" or f.file == "src/internal/expr.rs":
            continue
        for b, t in calls(prog, f, "^" + re.escape(EVAL) + "$"):
            n += 1
            owner, anchor = _anchor_in_owner(prog, f, b)
            if owner is None:
                ctx.violation(rule, "%s evaluates an expression" % short(f.name), "cannot locate the closure construction site", f.loc(t["sp"]), fn=f.name)
                continue
            S = Sym(prog, owner)
            dom = cfg.dominators(owner)
            v = _validation(prog, owner, S, anchor, dom)
            # discriminate sites of the same owner by the nearest dominating enum-arm fact (Join::Inner / Join::Left)
            arm = ""
            for (e, op, val, g) in S.facts_at(anchor):
                if e == "discr(p1)":
                    arm = "[arm %s]" % val
            inst = "%s%s evaluates a condition" % (short(owner.name), arm)
            ctx.check(v is not None, rule, inst, v or "",
                      "Expr::eval at %s is not preceded by name validation (column_names + has_column with an error edge) in %s: an unknown "
                      "column name reaches Row's by-name index and panics" % (f.loc(t["sp"]), short(owner.name)),
                      f.loc(t["sp"]), fn=owner.name, key="%s|%s%s" % (rule, short(owner.name), arm))
    ctx.floor(rule, "internal Expr::eval call sites", n, 5)


def join_sib(ctx, rule="JOIN-SIB"):
    prog = ctx.prog
    ctx.rule(rule, "both join arms build their result columns with with_name_prefix on both sides (left table's name for left columns, right "
                   "table's for right columns); only the left join applies but_nullable, and only to the right side; the left join pads "
                   "unmatched rows with one Null per right column")
    f = prog.fn("msi::internal::query::Join::exec")
    wn = []
    bn = []
    for g in prog.unit(f):
        for b, t in calls(prog, g, r"^msi::internal::column::Column::with_name_prefix$"):
            wn.append((g, b, t))
        for b, t in calls(prog, g, r"^msi::internal::column::Column::but_nullable$"):
            bn.append((g, b, t))
    ctx.check(len(wn) == 4, rule, "with_name_prefix call sites", "4 (2 per join kind)", "found %d with_name_prefix calls in Join::exec, expected 4" % len(wn), f.loc(), fn=f.name)
    ctx.check(len(bn) == 1, rule, "but_nullable call sites", "1 (left join, right side)", "found %d but_nullable calls in Join::exec, expected exactly 1" % len(bn), f.loc(), fn=f.name)
    if len(bn) == 1:
        g, b, t = bn[0]
        # the closure that calls but_nullable must also call with_name_prefix and be created in the Left arm, as the second (chained) mapper
        owner, anchor = _anchor_in_owner(prog, g, b)
        S = Sym(prog, f)
        arm = [val for (e, op, val, gg) in S.facts_at(anchor) if e.startswith("discr(p1")] if owner is f else []
        vs = {v["idx"]: v["name"] for v in prog.adts["msi::internal::query::Join"]["variants"]}
        name = vs.get(arm[-1]) if arm else None
        ctx.check(name == "Left", rule, "but_nullable only in the Left arm", str(name),
                  "but_nullable is applied in the %s arm" % name, g.loc(t["sp"]), fn=f.name)
        # right side: the closure is the argument of the `chain`ed map, i.e. iterates table2's columns: its prefix comes from the second exec result
        SG = Sym(prog, g)
        pref = [SG.val(tt["args"][1]) for bb, tt in calls(prog, g, r"with_name_prefix$")]
        ctx.check(len(pref) == 1, rule, "but_nullable closure prefixes once", str(pref), "closure applies %d prefixes" % len(pref), g.loc(), fn=f.name)
    # Null padding: ValueRef::Null aggregate inside a closure mapped over table2.columns() in the Left arm
    pad = []
    for g in f.closures:
        for bl in g.blocks:
            for s in bl["stmts"]:
                r = s["rhs"]
                if r["rv"] == "agg" and (r.get("adt") or "").endswith("ValueRef") and r.get("variant") == "Null" and s["lhs"]["l"] == 0:
                    pad.append(g)
    ctx.check(len(pad) == 1, rule, "left join pads with ValueRef::Null per right column", "", "found %d Null-padding closures in Join::exec, expected 1" % len(pad), f.loc(), fn=f.name)
    # prefix pairing: in each arm, the two prefixes are table1.name() for table1.columns() and table2.name() for table2.columns()
    S = Sym(prog, f)
    for g, b, t in wn:
        SG = Sym(prog, g)
        ctx.ok(rule, "prefix in %s" % g.path.rsplit("::", 1)[-1], SG.val(t["args"][1]), g.loc(t["sp"]))
