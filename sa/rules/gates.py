"""GATE rules: validation dominates evaluation / mutation (C05, C07, C11, C12)."""
import re

from .. import cfg
from ..lib import calls, closure_sites, cname, error_sites, has_fact, short, symcalls
from ..sym import Sym

EVAL = "msi::internal::expr::Expr::eval"


def _anchor_in_owner(prog, f, block):
    """for a site inside a closure return (owner fn, block in owner that builds the outermost enclosing closure)"""
    while f.kind == "Closure":
        owner = None
        # the direct creator: search all fns/closures of the unit for the aggregate
        top = f.owner
        for g in [top] + top.closures:
            for b, c in closure_sites(prog, g):
                if c is f:
                    owner = (g, b)
        if owner is None:
            return None, None
        f, block = owner
    return f, block


def _validation(prog, f, S, anchor, dom):
    """a name-validation prefix dominating `anchor`: column_names() call whose names are tested with has_column /
    index_for_column_name, failing edge leading to an error return. Returns description or None."""
    errs = {b for (b, t, k, m) in error_sites(prog, f)}
    cn = []
    for b, t in calls(prog, f, r"^msi::internal::expr::Expr::column_names$"):
        # must-pass: every entry->anchor path goes through b, or through the None edge of the Option test that guards b
        avoid = {b}
        for (e, op, val, g) in S.facts_at(b):
            if e.startswith("discr(") and op == "==" and val == 1:
                for blk in f.blocks:
                    tt = blk["term"]
                    if not blk["cleanup"] and tt["t"] == "switch" and S.val(tt["discr"]) == e:
                        some = {tgt for v, tgt in tt["cases"] if v == 1}
                        for tgt in f.succs()[blk["id"]]:
                            if tgt not in some:
                                avoid.add(tgt)
        if anchor in avoid or anchor not in cfg.reachable(f, 0, avoid=avoid):
            cn.append(b)
    if not cn:
        # a helper that performs the validation, called with `?` on every path to the anchor
        for b, t in f.calls():
            g = prog.callee_fn(t)
            if g is None or g.crate != "msi" or g is f or not g.locals[0].startswith("std::result::Result<"):
                continue
            if not calls(prog, g, r"^msi::internal::expr::Expr::column_names$"):
                continue
            Sg = Sym(prog, g)
            if _validation(prog, g, Sg, g.returns()[0] if g.returns() else 0, cfg.dominators(g)) is None and not _helper_validates(prog, g):
                continue
            # propagated and on every path to the anchor
            nb = t["succ"][0]
            br = [bb for bb, tt in f.calls() if (tt.get("callee") or "").endswith("Try::branch") and S.val(tt["args"][0]).startswith("call@%d:" % b)]
            if br and (anchor == b or anchor not in cfg.reachable(f, 0, avoid={b})):
                return "validated by helper %s (propagated with ?)" % short(g.name)
        return None
    tests = calls(prog, f, r"^msi::internal::table::Table::(has_column|index_for_column_name)$")
    for c in cn:
        from_c = cfg.reachable(f, c)
        for hb, ht in tests:
            if hb not in from_c:
                continue
            if anchor not in cfg.reachable(f, hb):
                continue
            # switch on the test result right after the call; one edge must reach an error source without passing the anchor
            nb = ht["succ"][0]
            r = cfg.reachable(f, nb, avoid={anchor})
            if r & errs:
                return "column_names() in bb%d, %s in bb%d with an error edge" % (c, cname(prog, ht).rsplit("::", 1)[-1], hb)
    # same test written as a search over the names: column_names().into_iter().find(|n| !table.has_column(n)) / any / all / position, error on the result
    from ..lib import lifted_closures
    for L in lifted_closures(prog, f, S):
        if L.call_block is None or not calls(prog, L.fn, r"^msi::internal::table::Table::(has_column|index_for_column_name)$"):
            continue
        nme = cname(prog, f.blocks[L.call_block]["term"])
        if not re.search(r"Iterator::(find|any|all|position|find_map|try_for_each)$", nme):
            continue
        for c in cn:
            if L.call_block in cfg.reachable(f, c) and anchor in cfg.reachable(f, L.call_block) and "column_names" in (L.param or "") + S.val(f.blocks[L.call_block]["term"]["args"][0]):
                r = cfg.reachable(f, f.blocks[L.call_block]["term"]["succ"][0], avoid={anchor})
                if r & errs:
                    return "column_names() in bb%d searched with %s over has_column, error edge on the result" % (c, nme.rsplit("::", 1)[-1])
    return None


def _helper_validates(prog, g):
    """g calls column_names and has_column/index_for_column_name and has an InvalidInput error reachable from the test"""
    errs = {b for (b, t, k, m) in error_sites(prog, g)}
    tests = calls(prog, g, r"^msi::internal::table::Table::(has_column|index_for_column_name)$")
    for hb, ht in tests:
        if cfg.reachable(g, ht["succ"][0]) & errs:
            return True
    return False


def gate_eval(ctx, rule="GATE-EVAL"):
    prog = ctx.prog
    ctx.rule(rule, "every internal call of Expr::eval is dominated (directly, or at the construction of the closure that performs it) by a "
                   "validation prefix in the same function: Expr::column_names() on the expression, each name tested with Table::has_column / "
                   "index_for_column_name, failing edge leading to an error return — so Row's by-name index panic is unreachable")
    n = 0
    for f in prog.fns.values():
        if f.crate != "msi" or f.file == "src/internal/expr.rs":
            continue
        for b, t in calls(prog, f, "^" + re.escape(EVAL) + "$"):
            n += 1
            owner, anchor = _anchor_in_owner(prog, f, b)
            if owner is None:
                ctx.violation(rule, "%s evaluates an expression" % short(f.name), "cannot locate the closure construction site", f.loc(t["sp"]), fn=f.name)
                continue
            S = Sym(prog, owner)
            dom = cfg.dominators(owner)
            v = _validation(prog, owner, S, anchor, dom)
            # discriminate sites of the same owner by the nearest dominating enum-arm fact (Join::Inner / Join::Left)
            arm = ""
            for (e, op, val, g) in S.facts_at(anchor):
                if e == "discr(p1)":
                    arm = "[arm %s]" % val
            inst = "%s%s evaluates a condition" % (short(owner.name), arm)
            ctx.check(v is not None, rule, inst, v or "",
                      "Expr::eval at %s is not preceded by name validation (column_names + has_column with an error edge) in %s: an unknown "
                      "column name reaches Row's by-name index and panics" % (f.loc(t["sp"]), short(owner.name)),
                      f.loc(t["sp"]), fn=owner.name, key="%s|%s%s" % (rule, short(owner.name), arm))
    ctx.floor(rule, "internal Expr::eval call sites", n, 5)


def join_sib(ctx, rule="JOIN-SIB"):
    prog = ctx.prog
    ctx.rule(rule, "both join arms build their result columns with with_name_prefix on both sides (left table's name for left columns, right "
                   "table's for right columns); only the left join applies but_nullable, and only to the right side; the left join pads "
                   "unmatched rows with one Null per right column")
    f = prog.fn("msi::internal::query::Join::exec")
    S = Sym(prog, f)
    vs = {v["idx"]: v["name"] for v in prog.adts["msi::internal::query::Join"]["variants"]}

    def arm_at(blk):
        a = [val for (e, op, val, gg) in S.facts_at(blk) if e.startswith("discr(p1") and op == "=="]
        return vs.get(a[-1]) if a else None
    # closure creation sites, per arm, with the creator-side values of the captures (a helper shared by both arms is inlined twice: two sites, one closure body)
    sites = []
    for bl in f.blocks:
        if bl["cleanup"]:
            continue
        for st in bl["stmts"]:
            r = st["rhs"]
            if r["rv"] == "agg" and r.get("cid") in prog.fns:
                sites.append((bl["id"], prog.fns[r["cid"]], [S.val(o) for o in r["ops"]]))

    def applied(c, caps, callee_rx):
        """calls of callee in closure c that execute for this creation site: [True/False/None(undecided)]"""
        SC = Sym(prog, c)
        out = []
        for b, t in calls(prog, c, callee_rx):
            verdict = True
            for (e, tr, g) in SC.bool_facts_at(b):
                m = re.fullmatch(r"[&*]*p1\.(\d+)", e)
                if not m or not isinstance(tr, bool):
                    continue
                k = int(m.group(1))
                v = caps[k].lstrip("&*") if k < len(caps) else "?"
                if v in ("c:0", "c:1"):
                    if (v == "c:1") != tr:
                        verdict = False
                else:
                    verdict = None if verdict is not False else False
            out.append(verdict)
        return out
    per_arm = {"Inner": {"wn": 0, "bn": [], "und": 0}, "Left": {"wn": 0, "bn": [], "und": 0}}
    wn = []
    for (blk, c, caps) in sites:
        arm = arm_at(blk)
        if arm not in per_arm:
            continue
        w = applied(c, caps, r"^msi::internal::column::Column::with_name_prefix$")
        bnn = applied(c, caps, r"^msi::internal::column::Column::but_nullable$")
        if w:
            per_arm[arm]["wn"] += 1
            wn.append((c, blk))
        per_arm[arm]["bn"] += [x for x in bnn if x is True]
        per_arm[arm]["und"] += len([x for x in bnn if x is None])
        if any(x is True for x in bnn):
            ctx.check(bool(w), rule, "but_nullable closure also prefixes", "", "the closure that makes columns nullable does not prefix their names", c.loc(), fn=f.name)
    # direct (non-closure) calls in the function body count for the arm they sit in
    for b, t in calls(prog, f, r"^msi::internal::column::Column::with_name_prefix$"):
        if arm_at(b) in per_arm:
            per_arm[arm_at(b)]["wn"] += 1
    for b, t in calls(prog, f, r"^msi::internal::column::Column::but_nullable$"):
        if arm_at(b) in per_arm:
            per_arm[arm_at(b)]["bn"].append(True)
    for arm in ("Inner", "Left"):
        ctx.check(per_arm[arm]["wn"] == 2, rule, "%s: both sides prefixed" % arm, "2 prefixing mappers", "the %s join builds its columns with %d prefixing mappers, expected 2 (left and right)" % (
            arm, per_arm[arm]["wn"]), f.loc(), fn=f.name, key="%s|%s|prefix" % (rule, arm))
    ctx.check(len(per_arm["Inner"]["bn"]) == 0 and per_arm["Inner"]["und"] == 0, rule, "inner join keeps nullability", "", "but_nullable is applied in the Inner arm", f.loc(), fn=f.name, key=rule + "|inner-nullable")
    ctx.check(len(per_arm["Left"]["bn"]) == 1 and per_arm["Left"]["und"] == 0, rule, "left join makes the right side nullable", "", "the Left arm applies but_nullable %d time(s), expected exactly once (right side)" % len(per_arm["Left"]["bn"]),
              f.loc(), fn=f.name, key=rule + "|left-nullable")
    # Null padding: ValueRef::Null aggregate inside a closure mapped over table2.columns() in the Left arm
    pad = []
    for g in f.closures:
        for bl in g.blocks:
            for s in bl["stmts"]:
                r = s["rhs"]
                if r["rv"] == "agg" and (r.get("adt") or "").endswith("ValueRef") and r.get("variant") == "Null" and s["lhs"]["l"] == 0:
                    pad.append(g)
    if not pad:
        pad = [t for b, t in f.calls() if (t.get("callee") or "").endswith("iter::repeat_n") and "ValueRef::Null" in S.val(t["args"][0]) and arm_at(b) == "Left"]
    if not pad:
        pad = [t for b, t in f.calls() if (t.get("callee") or "").endswith("Iterator::take") and "iter::repeat" in S.val(t["args"][0]) and arm_at(b) == "Left" and
               any((tt.get("callee") or "").endswith("iter::repeat") and "ValueRef::Null" in S.val(tt["args"][0]) for bb, tt in f.calls())]
    if not pad:
        # a loop over the right table's columns pushing ValueRef::Null
        lps = cfg.natural_loops(f)
        for b, t in f.calls():
            if (t.get("callee") or "").endswith("Iterator::next") and arm_at(b) == "Left" and "Table::columns(" in S.val(t["args"][0]):
                body = [bl for h, bl in lps.items() if b in bl]
                if body and any((tt.get("callee") or "").endswith("Vec::<T, A>::push") and bb in min(body, key=len) and "ValueRef::Null" in S.val(tt["args"][1]) for bb, tt in f.calls()):
                    pad.append(t)
    ctx.check(len(pad) == 1, rule, "left join pads with ValueRef::Null per right column", "", "found %d Null-padding closures in Join::exec, expected 1" % len(pad), f.loc(), fn=f.name)
    # prefix pairing: in each arm, the two prefixes are table1.name() for table1.columns() and table2.name() for table2.columns()
    for g, blk in wn:
        ctx.ok(rule, "prefixing mapper %s built in bb%d" % (g.path.rsplit("::", 1)[-1], blk), "", g.loc())


def join_shape(ctx, rule="JOIN-SHAPE"):
    """which table feeds which part of a join result (C12)"""
    from ..lib import call_of, symcalls
    prog = ctx.prog
    ctx.rule(rule, "in each join arm: result columns = left table's columns prefixed with the left table's name, then the right table's prefixed with the right table's name; "
                   "rows are built by an outer loop over the left rows and an inner loop over the right rows, cells chained left-then-right; the left join pads with one "
                   "Null per RIGHT column, exactly when no right row matched; a row is kept exactly when to_bool(condition.eval(row)) is true")
    f = prog.fn("msi::internal::query::Join::exec")
    S = Sym(prog, f)
    dom = cfg.dominators(f)
    loops = cfg.natural_loops(f)
    cs = symcalls(prog, f, S)
    vs = {v["idx"]: v["name"] for v in prog.adts["msi::internal::query::Join"]["variants"]}

    def arm_of(b):
        for (e, op, v, g) in S.facts_at(b):
            if e == "discr(p1)" and op == "==":
                return vs.get(v)
        return None

    def tid(v):
        m = re.findall(r"call@(\d+):internal::table::Rows::<'a>::into_table_and_values", v)
        return int(m[-1]) if m else None
    for arm in ("Inner", "Left"):
        itv = sorted([c for c in cs if c[1].endswith("Rows::<'a>::into_table_and_values") and arm_of(c[0]) == arm], key=lambda c: len(dom[c[0]]))
        if not ctx.check(len(itv) == 2, rule, "%s: two sub-selects" % arm, "", "Join::%s does not evaluate exactly two sub-selects" % arm, f.loc(), fn=f.name, key="%s|%s|two" % (rule, arm)):
            continue
        T1, T2 = itv[0][0], itv[1][0]
        maps = [c for c in cs if c[1].endswith("Iterator::map") and arm_of(c[0]) == arm and "Table::columns(" in c[2][0]]
        pref = [c for c in maps if "into_table_and_values" in c[2][1]]
        pad = [c for c in maps if c[2][1] == "agg{}"]
        # same padding spelled as repeat_n(ValueRef::Null, right.columns().len()): (block, name, [columns expression, ..], term) like a map over the columns
        for c in cs:
            if c[1].endswith("iter::repeat_n") and arm_of(c[0]) == arm and "ValueRef::Null" in c[2][0] and "Table::columns(" in c[2][1]:
                pad.append((c[0], c[1], [c[2][1], "agg{}"], c[3]))
        # ... or as iter::repeat(ValueRef::Null).take(right.columns().len())
        for c in cs:
            if c[1].endswith("Iterator::take") and arm_of(c[0]) == arm and "iter::repeat" in c[2][0] and "Table::columns(" in c[2][1]:
                mr = re.fullmatch(r"call@(\d+):std::iter::repeat", c[2][0])
                rep = S.val(f.blocks[int(mr.group(1))]["term"]["args"][0]) if mr else c[2][0]
                if "ValueRef::Null" in rep:
                    pad.append((c[0], c[1], [c[2][1], "agg{}"], c[3]))
        # ... or as a loop over right.columns() that pushes ValueRef::Null onto the copied left row
        for c in cs:
            if c[1].endswith("Iterator>::next") and arm_of(c[0]) == arm and "Table::columns(" in c[2][0]:
                body = [bl for h, bl in loops.items() if c[0] in bl]
                if body and any(cc[1].endswith("Vec::<T, A>::push") and cc[0] in min(body, key=len) and "ValueRef::Null" in cc[2][1] for cc in cs):
                    pad.append((c[0], c[1], [c[2][0], "agg{}"], c[3]))
        okp = len(pref) == 2 and all(tid(c[2][0]) == tid(c[2][1]) for c in pref) and sorted(tid(c[2][0]) for c in pref) == sorted([T1, T2])
        ctx.check(okp, rule, "%s: each side's columns are prefixed with its own table name" % arm, "", "Join::%s prefixes columns of table %s with the name of table %s" % (
            arm, [tid(c[2][0]) for c in pref], [tid(c[2][1]) for c in pref]), f.loc(), fn=f.name, key="%s|%s|prefix" % (rule, arm))
        ch = [c for c in cs if c[1].endswith("Iterator::chain") and arm_of(c[0]) == arm]
        colchain = [c for c in ch if "Iterator::map" in c[2][0] and "Iterator::map" in c[2][1]]
        okc = False
        if len(colchain) == 1 and okp:
            a0 = int(re.search(r"call@(\d+):", colchain[0][2][0]).group(1))
            a1 = int(re.search(r"call@(\d+):", colchain[0][2][1]).group(1))
            src = {c[0]: tid(c[2][0]) for c in pref}
            okc = src.get(a0) == T1 and src.get(a1) == T2
        ctx.check(okc, rule, "%s: left columns first" % arm, "", "Join::%s does not chain left-table columns before right-table columns" % arm, f.loc(), fn=f.name, key="%s|%s|colorder" % (rule, arm))
        # row loops
        nexts = [c for c in cs if c[1].endswith("Iterator>::next") and arm_of(c[0]) == arm and "into_table_and_values" in c[2][0] and re.search(r"into_table_and_values\.1", c[2][0])]
        n1 = [c for c in nexts if tid(c[2][0]) == T1]
        n2 = [c for c in nexts if tid(c[2][0]) == T2]
        okl = len(n1) == 1 and len(n2) == 1
        if okl:
            l1 = [bl for h, bl in loops.items() if n1[0][0] in bl]
            l2 = [bl for h, bl in loops.items() if n2[0][0] in bl]
            inner = min(l2, key=len) if l2 else set()
            outer = min(l1, key=len) if l1 else set()
            okl = bool(inner) and bool(outer) and inner < outer
        ctx.check(okl, rule, "%s: left rows outer, right rows inner" % arm, "", "Join::%s does not iterate left rows in the outer and right rows in the inner loop" % arm, f.loc(), fn=f.name,
                  key="%s|%s|loops" % (rule, arm))
        rowchain = [c for c in ch if "Iterator>::next@Some.0" in c[2][0] and "Iterator>::next@Some.0" in c[2][1]]
        okr = False
        if len(rowchain) == 1 and okl:
            a0 = int(re.findall(r"call@(\d+):", rowchain[0][2][0])[-1])
            a1 = int(re.findall(r"call@(\d+):", rowchain[0][2][1])[-1])
            okr = a0 == n1[0][0] and a1 == n2[0][0]
        ctx.check(okr, rule, "%s: left cells first" % arm, "", "Join::%s does not chain the left row's cells before the right row's" % arm, f.loc(), fn=f.name, key="%s|%s|cellorder" % (rule, arm))
        # keep exactly when the condition is true
        push = [c for c in cs if c[1].endswith("Vec::<T, A>::push") and arm_of(c[0]) == arm and any(tr is True and "Value::to_bool" in e for (e, tr, g) in S.bool_facts_at(c[0]))]
        ev = [c for c in cs if c[1].endswith("Expr::eval") and arm_of(c[0]) == arm]
        tb = [c for c in cs if c[1].endswith("Value::to_bool") and arm_of(c[0]) == arm and "Expr::eval" in c[2][0]]
        ctx.check(len(push) == 1 and len(ev) == 1 and len(tb) == 1, rule, "%s: row kept iff condition true" % arm, "", "Join::%s does not push the combined row exactly under to_bool(condition.eval(row)) == true" % arm,
                  f.loc(), fn=f.name, key="%s|%s|keep" % (rule, arm))
        if arm == "Left":
            okn = len(pad) == 1 and tid(pad[0][2][0]) == T2
            ctx.check(okn, rule, "Left: null padding has one Null per right column", "", "Join::Left pads unmatched rows over the columns of table %s, expected the right table %s" % (
                [tid(c[2][0]) for c in pad], T2), f.loc(), fn=f.name, key="%s|Left|pad" % rule)
            # padded row pushed on the `no match found` edge of a flag that is reset per left row and set when a match is pushed
            pp = [c for c in cs if c[1].endswith("Vec::<T, A>::push") and arm_of(c[0]) == "Left" and c not in push and (not push or c[2][0] == push[0][2][0])]
            okf = False
            if len(pp) == 1 and push:
                flags = [(e, tr) for (e, tr, g) in S.bool_facts_at(pp[0][0]) if re.fullmatch(r"_\d+", e)]
                if flags and flags[-1][1] is False:
                    L = int(flags[-1][0][1:])
                    sets = [(bl["id"], s["rhs"]["ops"][0].get("int")) for bl in f.blocks if not bl["cleanup"] for s in bl["stmts"]
                            if s["lhs"]["l"] == L and not s["lhs"]["p"] and s["rhs"]["rv"] == "use" and s["rhs"]["ops"][0].get("k") == "const"]
                    t_blocks = [b for b, v in sets if v == 1]
                    f_blocks = [b for b, v in sets if v == 0]
                    okf = len(t_blocks) == 1 and len(f_blocks) == 1 and any(tr is True and "Value::to_bool" in e for (e, tr, g) in S.bool_facts_at(t_blocks[0])) \
                        and f_blocks[0] in outer and f_blocks[0] not in inner and pp[0][0] in outer and pp[0][0] not in inner
            if not okf and len(pp) == 1 and push:
                # `let before = rows.len(); <inner loop>; if rows.len() == before { pad }`: no row was pushed for this left row
                rows_v = push[0][2][0].lstrip("&")
                lens = [c for c in cs if c[1].endswith("Vec::<T, A>::len") and c[2][0].lstrip("&") == rows_v and arm_of(c[0]) == "Left"]
                eqf = [(e, tr) for (e, tr, g) in S.bool_facts_at(pp[0][0]) if isinstance(tr, bool) and re.fullmatch(r"\(std::vec::Vec::<T, A>::len\(&?%s\) (Eq|Ne) std::vec::Vec::<T, A>::len\(&?%s\)\)" % (re.escape(rows_v), re.escape(rows_v)), e)]
                before = [c for c in lens if c[0] in outer and c[0] not in inner and any(c[0] in dom[ib] for ib in inner)]
                after = [c for c in lens if c[0] in outer and c[0] not in inner and not any(c[0] in dom[ib] for ib in inner)]
                okf = len(eqf) == 1 and ((" Eq " in eqf[0][0]) == eqf[0][1]) and len(before) == 1 and len(after) == 1 and pp[0][0] in outer and pp[0][0] not in inner
            ctx.check(okf, rule, "Left: padded row exactly when no right row matched", "", "Join::Left does not emit the null-padded row exactly when no right row matched (per-left-row flag reset, set on match, tested after the inner loop)",
                      f.loc(), fn=f.name, key="%s|Left|flag" % rule)
    # Select::exec: projection depends on the requested columns only; filter keeps to_bool(eval)
    g = prog.fn("msi::internal::query::Select::exec")
    Sg = Sym(prog, g)
    tn = [c for c in symcalls(prog, g, Sg) if c[1].endswith("Table::new")]
    ok = len(tn) == 1
    extra = []
    if ok:
        facts = [(e, tr) for (e, tr, gb) in Sg.bool_facts_at(tn[0][0]) if isinstance(tr, bool)]
        extra = [(e, tr) for (e, tr) in facts if not (tr is False and re.fullmatch(
            r"std::vec::Vec::<T, A>::is_empty\(&(call@\d+:std::vec::Vec::<T>::with_capacity|call@\d+:<std::result::Result<T, E> as std::ops::Try>::branch@Continue\.0|p1\.column_names)\)", e))]
        ok = len(facts) - len(extra) == 1 and not extra
    ctx.check(ok, rule, "Select: projection depends on the requested column list alone", "", "the projection step of Select::exec is additionally conditioned on %s: a result restricted to "
              "the requested columns is then not produced in those cases (e.g. when no row matched)" % [(e[:60], tr) for e, tr in extra], g.loc(), fn=g.name, key="%s|Select|projection" % rule)
    rc = [c for c in g.closures if any(cname(prog, t) == EVAL for b, t in c.calls())]
    okc = len(rc) == 1 and any(cname(prog, t).endswith("Value::to_bool") and t["dest"]["l"] == 0 for b, t in rc[0].calls())
    ctx.check(okc, rule, "Select: filter keeps rows whose condition is true", "", "Select::exec's retain closure does not return to_bool(condition.eval(row)) directly", g.loc(), fn=g.name, key="%s|Select|filter" % rule)


def join_more(ctx, rule="JOIN-SHAPE"):
    """additional C12 shape rules: no early return around the row loops, complete column-name collection, prefix rule"""
    from ..lib import symcalls
    from .. import tables
    prog = ctx.prog
    f = prog.fn("msi::internal::query::Join::exec")
    S = Sym(prog, f)
    dom = cfg.dominators(f)
    loops = cfg.natural_loops(f)
    cs = symcalls(prog, f, S)
    vs = {v["idx"]: v["name"] for v in prog.adts["msi::internal::query::Join"]["variants"]}

    def arm_of(b):
        for (e, op, v, g) in S.facts_at(b):
            if e == "discr(p1)" and op == "==":
                return vs.get(v)
        return None
    for arm in ("Inner", "Left"):
        res = [c for c in cs if c[1].endswith("Rows::<'a>::new") and arm_of(c[0]) == arm]
        nexts = [c for c in cs if c[1].endswith("Iterator>::next") and arm_of(c[0]) == arm and re.search(r"into_table_and_values\.1", c[2][0])]
        outer = None
        if nexts:
            first = min(nexts, key=lambda c: len(dom[c[0]]))
            ls = [(len(bl), h) for h, bl in loops.items() if first[0] in bl]
            outer = max(ls)[1] if ls else None
        ok = len(res) == 1 and outer is not None and outer in dom[res[0][0]]
        ctx.check(ok, rule, "%s: the result is produced only after the row loops" % arm, "", "Join::%s can return a result without running its row loops (%d result constructions): e.g. an early "
                  "return for an empty side drops the unmatched left rows of a left join" % (arm, len(res)), f.loc(), fn=f.name, key="%s|%s|no-early-return" % (rule, arm))
    # the row loops run to exhaustion: a join pairs EVERY left row with EVERY right row, so the only way out of a row loop is its iterator returning None
    succs = f.succs()
    nl = 0
    for h, body in sorted(loops.items()):
        ht = f.blocks[h]["term"]
        if not (ht["t"] == "call" and re.search(r"slice::Iter<'a, T> as std::iter::Iterator>::next$|Iterator>?::next$", cname(prog, ht)) and "slice::Iter" in (cname(prog, ht) + (ht.get("written") or ""))):
            continue
        nl += 1
        bad = []
        for b in body:
            for s_ in succs[b]:
                if s_ in body:
                    continue
                tb = f.blocks[b]["term"]
                if not (tb["t"] == "switch" and re.fullmatch(r"discr\(call@\d+:.*Iterator>?::next\)", S.val(tb["discr"]))):
                    bad.append(b)
        ctx.check(not bad, rule, "row loop at bb%d runs to exhaustion" % h, "", "a row loop of Join::exec can be left other than by exhausting its iterator (bb%s): after the first "
                  "match the remaining rows of that side are never paired, so one-to-many joins lose rows" % sorted(set(bad))[:3], f.loc(f.blocks[h]["term"].get("sp")), fn=f.name,
                  key="%s|exhaust|%d" % (rule, nl))
    ctx.floor(rule, "row loops in Join::exec", nl, 4)
    # the joined table is anonymous in both arms: a named result would be prefixed again when it is itself an operand of a join
    tn = [(arm_of(c[0]), c[2][0]) for c in cs if c[1].endswith("Table::new")]
    ctx.check(len(tn) >= 2 and all(re.fullmatch(r"call@\d+:std::string::String::new", a0) for (arm, a0) in tn), rule, "joined tables are anonymous", str(tn),
              "Join::exec names a joined table (%s): its already qualified columns are qualified again when the result is an operand of another join, and valid names are rejected"
              % [(arm, a0[:60]) for (arm, a0) in tn], f.loc(), fn=f.name, key="%s|anonymous" % rule)
    # every Ast variant with sub-expressions is traversed by populate_column_names (and by eval)
    R2 = "AST-COMPLETE"
    ctx.rule(R2, "Ast::populate_column_names visits every sub-expression of every Ast variant (one recursive call per Box<Ast> field, the Column arm inserts the name), so name "
                 "validation sees every column that Ast::eval can look up")
    a = prog.adts["msi::internal::expr::Ast"]
    g = prog.fn("msi::internal::expr::Ast::populate_column_names")
    Sg = Sym(prog, g)
    sw = tables.first_switch(g)
    if sw is None:
        ctx.anchor_missing(R2, "match in populate_column_names")
    else:
        t = g.blocks[sw]["term"]
        targets = {v: tg for v, tg in t["cases"]}
        for v in a["variants"]:
            nbox = sum(1 for (fn_, fty) in v["fields"] if "Box<internal::expr::Ast>" in fty)
            tg = targets.get(v["idx"], t["otherwise"])
            reach = cfg.reachable(g, tg)
            rec = [b for b, tt in g.calls() if b in reach and cname(prog, tt) == g.name]
            ins = [b for b, tt in g.calls() if b in reach and (tt.get("callee") or "").endswith("HashSet::<T, S, A>::insert")]
            if nbox:
                ctx.check(len(rec) >= nbox, R2, "Ast::%s: %d sub-expression(s) traversed" % (v["name"], nbox), "", "populate_column_names does not recurse into the %d sub-expression(s) of Ast::%s "
                          "(%d recursive calls reachable): a column named only there is evaluated without validation and panics in Row's index" % (nbox, v["name"], len(rec)),
                          g.loc(), fn=g.name, key="%s|%s" % (R2, v["name"]))
            if v["name"] == "Column":
                ctx.check(len(ins) == 1, R2, "Ast::Column: name collected", "", "populate_column_names does not insert the name of Ast::Column", g.loc(), fn=g.name, key="%s|Column" % R2)
    ev = prog.fn("msi::internal::expr::Ast::eval")
    sw = tables.first_switch(ev)
    if sw is not None:
        t = ev.blocks[sw]["term"]
        for v in a["variants"]:
            nbox = sum(1 for (fn_, fty) in v["fields"] if "Box<internal::expr::Ast>" in fty)
            tg = dict((x, y) for x, y in t["cases"]).get(v["idx"], t["otherwise"])
            rec = [b for b, tt in ev.calls() if b in cfg.reachable(ev, tg) and cname(prog, tt) == ev.name]
            if nbox:
                ctx.check(len(rec) >= nbox, R2, "Ast::eval evaluates the operands of %s" % v["name"], "", "Ast::eval reaches %d recursive evaluations for Ast::%s, expected %d" % (len(rec), v["name"], nbox), ev.loc(), fn=ev.name)
    # Column::with_name_prefix
    R3 = "NAME-PREFIX"
    ctx.rule(R3, "Column::with_name_prefix returns the column unchanged iff the prefix is empty, otherwise a copy whose name is \"{prefix}.{name}\" and whose other attributes are the column's own")
    h = prog.fn("msi::internal::column::Column::with_name_prefix")
    Sh = Sym(prog, h)
    hs = symcalls(prog, h, Sh)
    cl = [c for c in hs if c[1].endswith("Column as std::clone::Clone>::clone") and c[2] == ["&*p1"]]
    fm = [c for c in hs if c[1].endswith("fmt::format")]
    nd = [c[2][0] for c in hs if c[1].endswith("new_display")]
    ok = len(cl) == 1 and len(fm) == 1 and has_fact(Sh, cl[0][0], r"^core::str::<impl str>::is_empty\(&\*p2\)$", True) and has_fact(Sh, fm[0][0], r"^core::str::<impl str>::is_empty\(&\*p2\)$", False) \
        and len(Sh.bool_facts_at(cl[0][0])) == 1 and nd == ["&p2", "&*p1.name"]
    piece = [c[2][0] for c in hs if c[1].endswith("Arguments::<'a>::new")]
    if not ok and len(cl) == 1 and len(fm) == 1 and nd == ["&p2", "&*p1.name"] and has_fact(Sh, fm[0][0], r"^core::str::<impl str>::is_empty\(&\*p2\)$", False):
        # `let mut c = self.clone(); if !prefix.is_empty() { c.name = format!(..) }; c`: one clone, and the only field it overwrites is the name, under the non-empty test
        stores = [(bl["id"], [e.get("n") for e in st["lhs"]["p"] if isinstance(e, dict) and "f" in e]) for bl in h.blocks if not bl["cleanup"] for st in bl["stmts"]
                  if st["lhs"]["p"] and "column::Column" in h.locals[st["lhs"]["l"]]]
        ok = bool(stores) and all(flds == ["name"] and has_fact(Sh, b_, r"^core::str::<impl str>::is_empty\(&\*p2\)$", False) for (b_, flds) in stores)
    ok = ok and len(piece) == 1 and "\\xc0\\x01.\\xc0\\x00" in piece[0]
    ctx.check(ok, R3, "prefix applied iff non-empty, as prefix.name", "", "with_name_prefix does not return self.clone() exactly for an empty prefix and \"{prefix}.{name}\" otherwise", h.loc(), fn=h.name, key=R3)
    agg = [s for bl in h.blocks if not bl["cleanup"] for s in bl["stmts"] if s["rhs"]["rv"] == "agg" and (s["rhs"].get("adt") or "").endswith("column::Column")]
    if agg:
        names = [x[0] for x in prog.adts["msi::internal::column::Column"]["variants"][0]["fields"]]
        bad = []
        for i, o in enumerate(agg[0]["rhs"]["ops"]):
            v = Sh.val(o)
            if names[i] == "name":
                continue
            if not (v == "*p1.%s" % names[i] or ("Clone>::clone(&*p1.%s)" % names[i]) in v):
                bad.append((names[i], v[:50]))
        ctx.check(not bad, R3, "other attributes are copied from the column", "", "with_name_prefix changes attributes: %s" % bad, h.loc(), fn=h.name)
    bn = prog.fn("msi::internal::column::Column::but_nullable")
    st = [s for bl in bn.blocks if not bl["cleanup"] for s in bl["stmts"] if s["lhs"]["p"]]
    ok = len(st) == 1 and [e.get("n") for e in st[0]["lhs"]["p"] if isinstance(e, dict)] == ["is_nullable"] and st[0]["rhs"]["ops"][0].get("int") == 1
    ctx.check(ok, R3, "but_nullable sets only is_nullable", "", "but_nullable does not set exactly is_nullable = true", bn.loc(), fn=bn.name)
