"""DML rules: GATE-1/2 (validated before created), INFO-KEY, ORD-1 (C05, C07); PAIR-1/2/3, CAT-SYM (C08); LIMIT-* (C20)."""
import re

from .. import cfg
from ..flow import DefUse, derived_locals
from ..lib import call_of, calls, closure_sites, cname, error_sites, has_fact, short, symcalls
from ..sym import Sym
from .eam import Summaries, label
from .gates import _anchor_in_owner

Q = "msi::internal::query::"
PK = "msi::internal::package::Package::<F>::"
IVV = "msi::internal::column::Column::is_valid_value"
CREATE = "msi::internal::value::ValueRef::create"
REMOVE = "msi::internal::value::ValueRef::remove"


def _first_mutations(prog, S, f):
    return S.mutation_blocks(f)


def gate1(ctx, rule="GATE-1"):
    prog = ctx.prog
    ctx.rule(rule, "in Insert::exec and Update::exec every cell is validated before any cell is created: Column::is_valid_value is called in a loop over the "
                   "whole batch (new_rows / updates), its false edge leads to an InvalidInput error, no mutation precedes or is interleaved with it "
                   "(no mutation block reaches a validation block; every mutation is reachable only through the validation loop); Insert also compares "
                   "each row's arity with the column count inside that loop")
    Sm = Summaries(prog)
    for name, batch in (("Insert", "new_rows"), ("Update", "updates")):
        f = prog.fn(Q + name + "::exec")
        S = Sym(prog, f)
        muts = set(Sm.mutation_blocks(f))
        vv = [(b, t) for b, t in f.calls() if cname(prog, t) == IVV]
        searched = None
        if not vv:
            # the same test inside a closure that searches the row for an offending value: columns.iter().zip(values).find(|(c, v)| !c.is_valid_value(v))
            from ..lib import lifted_closures
            for L in lifted_closures(prog, f, S):
                if L.call_block is not None and any(cname(prog, t) == IVV for b, t in L.fn.calls()) and \
                        re.search(r"Iterator>?::(find|any|all|position|find_map)$", cname(prog, f.blocks[L.call_block]["term"])):
                    searched = L
                    vv = [(L.call_block, f.blocks[L.call_block]["term"])]
        if not ctx.check(len(vv) == 1, rule, "%s::exec validates values" % name, "", "%s::exec calls Column::is_valid_value %d times (expected once, in the validation loop)" % (name, len(vv)), f.loc(), fn=f.name,
                         key="%s|%s|call" % (rule, name)):
            continue
        vb, vt = vv[0]
        errs = {b: k for (b, t, k, m) in error_sites(prog, f)}
        nb = vt["succ"][0]
        fail = [e for e in errs if e in cfg.reachable(f, nb, avoid=muts) and has_fact(S, e, r"Column::is_valid_value", False)]
        if searched is not None:
            fail = [e for e in errs if e in cfg.reachable(f, nb, avoid=muts) and any(("call@%d:" % vb) in ex and tr in (("==", 1), True) for (ex, tr, g) in S.bool_facts_at(e))]
        ctx.check(bool(fail) and all(errs[e] == "InvalidInput" for e in fail), rule, "%s::exec rejects an invalid value" % name, "InvalidInput on the false edge",
                  "the false edge of is_valid_value in %s::exec does not lead to an InvalidInput error" % name, f.loc(vt["sp"]), fn=f.name, key="%s|%s|reject" % (rule, name))
        loops = cfg.natural_loops(f)
        encl = sorted([(len(bl), h) for h, bl in loops.items() if vb in bl])
        ok = bool(encl)
        outer = encl[-1][1] if encl else None
        it = ""
        if ok:
            # the outermost enclosing loop iterates the whole batch, unconditionally from the entry
            nxt = [(b, t) for b, t in f.calls() if b in loops[outer] and (t.get("callee") or "").endswith("Iterator::next") and not any(b in loops[h] for (sz, h) in encl[:-1])]
            it = " ".join(S.val(t["args"][0]) for b, t in nxt)
            ok = ("p1.%s" % batch) in it
        ctx.check(ok, rule, "%s::exec validation loop covers the batch" % name, "iterates self.%s" % batch,
                  "the loop around is_valid_value in %s::exec does not iterate self.%s (%s)" % (name, batch, it[:120]), f.loc(), fn=f.name, key="%s|%s|total" % (rule, name))
        if encl and searched is None:
            # every element of the batch is validated: no iteration of the innermost loop around the test gets back to the loop header without passing the test
            from .loops import cycle_without
            inner = encl[0][1]
            ctx.check(not cycle_without(f, inner, loops[inner], {vb}), rule, "%s::exec validates every element of the batch" % name, "",
                      "an iteration of the validation loop of %s::exec can skip Column::is_valid_value (a `continue` or a condition around the test): that value reaches the table "
                      "unchecked" % name, f.loc(vt["sp"]), fn=f.name, key="%s|%s|every" % (rule, name))
        if muts and outer is not None:
            before = [m for m in muts if vb in cfg.reachable(f, m)]
            skip = [m for m in muts if m in cfg.reachable(f, 0, avoid={outer})]
            ctx.check(not before and not skip, rule, "%s::exec validates before it mutates" % name, "%d mutation blocks, all after the validation loop" % len(muts),
                      "%s::exec: mutation in bb%s %s the validation loop: a value can be interned/released before a later value of the batch is rejected" % (
                          name, (before or skip)[:3], "precedes or is interleaved with" if before else "can bypass"), f.loc(), fn=f.name, key="%s|%s|order" % (rule, name))
        if name == "Insert":
            ar = [e for e in errs if outer is not None and any(tr is True and g in loops[outer] and re.search(r"::len\(.*\) Ne .*::len\(", ex) for (ex, tr, g) in S.bool_facts_at(e))]
            ctx.check(bool(ar), rule, "Insert::exec checks the arity of every row", "", "no `values.len() != columns().len()` error inside the validation loop of Insert::exec",
                      f.loc(), fn=f.name, key="%s|Insert|arity" % rule)


GATE2 = {
    "Insert": [("NotFound", r"discr\(std::collections::BTreeMap::<K, V, A>::get\(&\*p4,&p1\.table_name\)\)", ("==", 0), "unknown table"),
               ("InvalidInput", [(r"::len\(.*\) Ne ", True), (r"::len\(.*\) Eq ", False), (r" Ne .*::len\(", True), (r" Eq .*::len\(", False)], None, "wrong number of values"),
               ("InvalidInput", [(r"Column::is_valid_value", False), (r"^discr\(call@\d+:.*Iterator>?::(find|position|find_map)\)$", ("==", 1))], None, "invalid value"),
               ("InvalidData", r"BTreeMap::<K, V, A>::contains_key\(", True, "stored table already malformed (duplicate key on disk)"),
               ("AlreadyExists", r"BTreeMap::<K, V, A>::contains_key\(", True, "duplicate key (existing row)"),
               ("InvalidInput", r"HashSet::<T, S, A>::contains\(", True, "duplicate key (within the batch)"),
               ("InvalidInput", "exceeds:65536", None, "row limit (C20)")],
    "Update": [("NotFound", r"discr\(std::collections::BTreeMap::<K, V, A>::get\(&\*p4,&p1\.table_name\)\)", ("==", 0), "unknown table"),
               ("InvalidInput", [(r"Table::has_column\(", False), (r"^discr\(.*Table::get_column\(", ("==", 0)), (r"^discr\(.*Table::get_column\(", ("notin", (1,))),
                                 (r"^discr\(.*Table::index_for_column_name\(", ("==", 0)), (r"^discr\(.*Table::index_for_column_name\(", ("notin", (1,)))], None, "unknown column (assignment)"),
               ("AlreadyExists", r"HashSet::<T, S, A>::contains\(", True, "duplicate key after assigning key columns"),
               ("InvalidInput", r"Column::is_valid_value", False, "invalid value"),
               ("InvalidInput", r"Table::has_column\(", False, "unknown column (condition)")],
}


def _gate_match(pat, truth, fact):
    """does the innermost guard `fact` = (expr, truth, block) state the documented test? pat: regex with `truth`, a list of (regex, truth) spellings, or 'exceeds:N'"""
    from ..lib import exceeds_facts
    if isinstance(pat, str) and pat.startswith("exceeds:"):
        return any(n == int(pat[8:]) for (x, n, g) in exceeds_facts([fact]))
    alts = pat if isinstance(pat, list) else [(pat, truth)]
    return any(re.search(p_, fact[0]) and fact[1] == t_ for (p_, t_) in alts)


def gate2(ctx, rule="GATE-2"):
    prog = ctx.prog
    ctx.rule(rule, "the only argument-error sources in Insert::exec / Update::exec are the documented structural ones; each is classified by its constant ErrorKind and by "
                   "the test that guards it (innermost dominating fact); an unclassified rejection, or a missing documented one, is reported")
    for name, table in GATE2.items():
        f = prog.fn(Q + name + "::exec")
        S = Sym(prog, f)
        used = [0] * len(table)
        sites = []
        for (b, t, kind, mac) in error_sites(prog, f):
            facts = S.bool_facts_at(b)
            cands = [i for i, (k, pat, truth, what) in enumerate(table) if k == kind and facts and _gate_match(pat, truth, facts[-1])]
            sites.append((b, t, kind, facts, cands))
        # assign sites to documented rejections so that as many distinct rejections as possible are covered (a site may match several spellings)
        order = sorted(range(len(sites)), key=lambda i: len(sites[i][4]))
        assign = {}
        for i in order:
            free = [c for c in sites[i][4] if used[c] == 0]
            if sites[i][4]:
                hit = (free or sites[i][4])[0]
                assign[i] = hit
                used[hit] += 1
        for i, (b, t, kind, facts, cands) in enumerate(sites):
            hit = assign.get(i)
            if hit is None:
                ctx.violation(rule, "%s::exec: unclassified %s error" % (name, kind), "an %s error guarded by %s is not one of the documented rejections of %s" % (
                    kind, [(e[:60], tr) for e, tr, g in facts[-2:]], name.lower()), f.loc(t["sp"]), fn=f.name, key="%s|%s|unclassified|%s" % (rule, name, kind))
            else:
                ctx.ok(rule, "%s::exec: %s" % (name, table[hit][3]), "%s, guarded by %s" % (kind, str(table[hit][1])[:50]), f.loc(t["sp"]))
        for i, (k, pat, truth, what) in enumerate(table):
            if used[i] == 0:
                ctx.violation(rule, "%s::exec: %s" % (name, what), "the documented rejection `%s` (%s) is missing from %s::exec" % (what, k, name), f.loc(), fn=f.name,
                              key="%s|%s|missing|%s" % (rule, name, what))


def _rev_count(prog, c, op):
    """number of Iterator::rev adaptors in the chain that produces the iterator operand `op` inside function c"""
    S = Sym(prog, c)
    v, n, hops = S.val(op), 0, 0
    calls_by_block = {b: t for b, t in c.calls()}
    while hops < 8:
        hops += 1
        n += len(re.findall(r"Iterator::rev\(", v))
        m = re.fullmatch(r"&?call@(\d+):(.*)", v)
        if not m:
            break
        if m.group(2).endswith("Iterator::rev"):
            n += 1
        t = calls_by_block.get(int(m.group(1)))
        if t is None or not t["args"]:
            break
        v = S.val(t["args"][0])
    return n


def info_key(ctx, rule="INFO-KEY"):
    prog = ctx.prog
    ctx.rule(rule, "a function that creates cells (ValueRef::create) and hands rows to Table::write_rows must consult the key definition "
                   "(Table::primary_key_indices or Column::is_primary_key), with the result feeding a keyed ordered map or an argument-error branch: without "
                   "knowing which columns are keys no code can keep keys unique and ordered")
    n = 0
    for f in prog.fns.values():
        if f.crate != "msi" or f.kind == "Closure":
            continue
        unit = prog.unit(f)
        creates = any(cname(prog, t) == CREATE for g in unit for b, t in g.calls())
        writes = any(cname(prog, t) == "msi::internal::table::Table::write_rows" for b, t in f.calls())
        if not (creates and writes):
            continue
        n += 1
        S = Sym(prog, f)
        keys = [(g, b, t) for g in unit for b, t in g.calls() if re.search(r"Table::primary_key_indices$|Column::is_primary_key$", cname(prog, t))]
        ok = bool(keys)
        how = ""
        if ok:
            errs = [b for (b, t, k, m) in error_sites(prog, f)]
            # the key test alone must decide: it is the innermost guard of the error
            via_err = any((S.bool_facts_at(e) or [("", None, 0)])[-1][1] is True and "Column::is_primary_key" in S.bool_facts_at(e)[-1][0] for e in errs)
            via_map = any(re.search(r"BTreeMap::<K, V, A>::(insert|contains_key)$", cname(prog, t)) and "Vec<internal::value::Value>" in (t.get("written") or "") for b, t in f.calls())
            # or: duplicate test on a set keyed by the key vector (error edge) plus a re-sort of the rows by the key vector
            dup = any(has_fact(S, e, r"HashSet::<T, S, A>::contains\(", True) for e in errs) and any(
                re.search(r"HashSet::<T, S, A>::insert$", cname(prog, t)) and "Vec<internal::value::Value>" in (t.get("written") or "") for b, t in f.calls())
            srt = [t for b, t in f.calls() if re.search(r"<impl \[T\]>::sort_by(_cached)?_key$", t.get("callee") or "") and "Vec<internal::value::Value>" in (t.get("written") or "")]
            via_set = dup and len(srt) == 1
            if via_set and not (via_err or via_map):
                # the duplicate test and the re-sort must not depend on the WHERE clause: a conditional update can collide keys as well
                sites = [b for b, t in f.calls() if re.search(r"HashSet::<T, S, A>::contains$", cname(prog, t))] + [b for b, t in f.calls() if t in srt]
                for b in sites:
                    bad = [e for (e, tr, g) in S.bool_facts_at(b) if re.search(r"\.condition\b", e)]
                    ctx.check(not bad, rule, "%s: key test independent of the WHERE clause" % short(f.name), "", "the duplicate-key test / re-sort of %s runs only under a condition on the "
                              "statement's WHERE clause (%s): an update that assigns a key column under the other form can leave duplicate or unsorted keys" % (short(f.name), bad[:1]),
                              f.loc(), fn=f.name, key="%s|%s|where-independent" % (rule, short(f.name)))
            if via_set and not (via_err or via_map):
                # (a) the test runs whenever SOME assigned column is a key column
                guard = None
                for b in sites[:1]:
                    for (e, tr, g) in S.bool_facts_at(b):
                        mm = re.search(r"call@(\d+):.*Iterator>?::(any|all|position|find)$", e)
                        if mm and tr is True:
                            guard = mm.group(2)
                ctx.check(guard == "any", rule, "%s: key test runs when any assigned column is a key" % short(f.name), str(guard),
                          "the duplicate-key test of %s is guarded by Iterator::%s over the assignments: an update that assigns a key column together with a non-key column "
                          "skips the test and the re-sort" % (short(f.name), guard), f.loc(), fn=f.name, key="%s|%s|any-key" % (rule, short(f.name)))
                # (b) the predicted key uses the LAST assignment to a column, as the apply loop (forward, later stores win) does
                searches = [(c, cname(prog, t), _rev_count(prog, c, t["args"][0])) for c in unit for bb, t in c.calls()
                            if re.search(r"Iterator>?::(find|position|find_map)$|::(rfind|rposition)$", cname(prog, t)) and "(std::string::String, internal::value::Value)" in (t.get("written") or "")]
                from_end = [x for x in searches if (x[2] % 2 == 1) != x[1].endswith(("rfind", "rposition"))]
                # the assignment looked up is the one for THIS key column: index_for_column_name(name) == Some(index)
                cmpc = [(c, cname(prog, t)) for c in unit for bb, t in c.calls() if re.search(r"PartialEq(<[^>]*>)?>?::(eq|ne)$", cname(prog, t)) and
                        any("index_for_column_name" in Sym(prog, c).val(a) for a in t["args"])]
                ctx.check(bool(cmpc) and all(n_.endswith("::eq") for (c, n_) in cmpc), rule, "%s: predicted keys use the assignment of the same column" % short(f.name), "",
                          "the key pre-check of %s selects an assignment with %s on the column index: it predicts the key from an assignment to a different column" % (
                              short(f.name), [n_.rsplit("::", 1)[-1] for (c, n_) in cmpc]), f.loc(), fn=f.name, key="%s|%s|same-column" % (rule, short(f.name)))
                ctx.check(bool(searches) and len(from_end) == len(searches), rule, "%s: predicted keys use the last assignment to a column" % short(f.name), str([x[1][-40:] for x in searches]),
                          "the key pre-check of %s looks up the assignment for a key column from the front of the SET list (%s) while the assignments are applied in order, the last one "
                          "winning: `SET K = 7, K = 2` is checked as 7 and stored as 2" % (short(f.name), [x[1][-40:] for x in searches]), f.loc(), fn=f.name,
                          key="%s|%s|last-wins" % (rule, short(f.name)))
            ok = via_err or via_map or via_set
            how = "key test leads to an error" if via_err else ("rows keyed by the primary-key vector in a BTreeMap" if via_map else (
                "duplicate test on the key vectors + re-sort by key" if via_set else ""))
        ctx.check(ok, rule, short(f.name), how, "%s creates cells and rewrites the table without consulting the primary key definition: assignments to key columns can "
                  "produce duplicate or out-of-order keys" % short(f.name), f.loc(), fn=f.name, key="%s|%s" % (rule, short(f.name)))
    ctx.floor(rule, "functions that create cells and write rows", n, 2)


_REORDER = re.compile(r"Iterator>?::(rev|skip|step_by|take|filter|skip_while|take_while|chain|cycle)\b|<impl \[T\]>::(reverse|rchunks|split_at)\b")


def upd_align(ctx, rule="UPD-ALIGN"):
    """Update::exec pairs every stored row with ITS OWN selection flag and sorts by the key columns in declaration order"""
    prog = ctx.prog
    from ..lib import unit_calls
    ctx.rule(rule, "in Update::exec the selection flags are computed by one pass over the stored rows in order, every Iterator::zip pairs the rows with those flags position by "
                   "position (no reversing, skipping or filtering adaptor on either side), and the key by which the rows are re-sorted lists the key columns in "
                   "primary_key_indices order")
    f = prog.fn(Q + "Update::exec")
    S = Sym(prog, f)
    uc = unit_calls(prog, f, S)
    zips = [(b, args) for b, n, args, t, L in uc if n.endswith("Iterator::zip") and L is None]
    bad = []
    for b, args in zips:
        for a in args[:2]:
            v = a
            seen = 0
            # follow `call@N:` references of adaptor results back to their receivers
            while seen < 6:
                seen += 1
                m = _REORDER.search(v)
                if m:
                    bad.append(m.group(0))
                    break
                mm = re.fullmatch(r"&?call@(\d+):.*", v)
                if not mm:
                    break
                src = [args2 for b2, n2, args2, t2, L2 in uc if b2 == int(mm.group(1)) and L2 is None]
                if not src or not src[0]:
                    break
                v = src[0][0]
    ctx.check(not bad, rule, "rows and selection flags are paired position by position", "%d zip sites" % len(zips),
              "Update::exec zips the rows with their selection flags through %s: a row is paired with another row's flag, so the wrong rows are updated / checked" % sorted(set(bad)),
              f.loc(), fn=f.name, key=rule + "|zip")
    # the selection flags: collect(map(iter(rows), ..)) with nothing in between
    maps = [(b, args) for b, n, args, t, L in uc if n.endswith("Iterator::map") and L is None and "condition" in (args[1] if len(args) > 1 else "")]
    badm = [m.group(0) for b, args in maps for m in [_REORDER.search(args[0])] if m]
    ctx.check(not badm, rule, "selection flags are computed over the rows in order", "%d map sites" % len(maps),
              "Update::exec computes the selection flags over %s of the rows: flag i no longer belongs to row i" % sorted(set(badm)), f.loc(), fn=f.name, key=rule + "|selected")
    # the sort key
    srt = [(b, L) for b, n, args, t, L in uc if L is not None and any(nn.endswith(("sort_by_cached_key", "sort_by_key")) for bb, nn, aa, tt, LL in uc if bb == b and LL is None)]
    inner = [n for b, n, args, t, L in uc if L is not None and any(b == sb for sb, sl in srt) and _REORDER.search(n)]
    ctx.check(not inner, rule, "sort key lists the key columns in order", "", "the key Update::exec sorts by is built through %s: with a multi-column key the rows are ordered by a "
              "different column order than the one Insert and the reader use" % sorted(set(x.rsplit("::", 1)[-1] for x in inner)), f.loc(), fn=f.name, key=rule + "|sort-key")


def ord1(ctx, rule="ORD-1"):
    prog = ctx.prog
    ctx.rule(rule, "the rows Insert::exec hands to write_rows are BTreeMap::into_values() of the map keyed by the primary-key vector, i.e. they are emitted in ascending key order; "
                   "the key vector is built from Table::primary_key_indices() for stored rows and for new rows alike")
    f = prog.fn(Q + "Insert::exec")
    S = Sym(prog, f)
    wr = [(b, t) for b, t in f.calls() if cname(prog, t) == "msi::internal::table::Table::write_rows"]
    iv = [(b, t) for b, t in f.calls() if (t.get("callee") or "").endswith("BTreeMap::<K, V, A>::into_values")]
    ok = len(wr) == 1 and len(iv) == 1
    if ok:
        D = derived_locals(f, {iv[0][1]["dest"]["l"]}, through_calls=lambda t: re.search(r"Iterator::(collect|map)$|IntoIterator::into_iter$", t.get("callee") or "") is not None)
        a = wr[0][1]["args"][2]
        ok = a.get("pl") and a["pl"]["l"] in D
        # nothing reorders in between
        ok = ok and not any(re.search(r"::(sort\w*|reverse|rev|swap)$", t.get("callee") or "") for b, t in f.calls())
    ctx.check(ok, rule, "rows written in key order", "write_rows(into_values(rows_map).collect())", "the rows written by Insert::exec do not come straight from BTreeMap::into_values()", f.loc(), fn=f.name)
    pk = [(b, t) for b, t in f.calls() if cname(prog, t).endswith("Table::primary_key_indices")]
    ins = [(b, t) for b, t in f.calls() if (t.get("callee") or "").endswith("BTreeMap::<K, V, A>::insert") and "Vec<internal::value::Value>" in (t.get("written") or "")]
    ctx.check(len(pk) == 1 and len(ins) == 2, rule, "both inserts are keyed by the primary-key vector", "%d inserts" % len(ins),
              "Insert::exec has %d keyed inserts and %d primary_key_indices calls (expected 2 and 1)" % (len(ins), len(pk)), f.loc(), fn=f.name)
    # every key-building closure indexes with the captured key indices
    # counted by creation site: a shared `key_values(indices, row)` helper is inlined at each use, one closure body, several sites
    def _indexes(c):
        return any((t.get("callee") or "") == "std::ops::Index::index" for bb, t in c.calls()) or \
            any(bl["term"]["t"] == "assert" and bl["term"].get("msg") == "BoundsCheck" for bl in c.blocks if not bl["cleanup"])
    kc = [(b, c) for b, c in closure_sites(prog, f) if _indexes(c)]
    ctx.check(len(kc) >= 3, rule, "key vectors are built by indexing with the key indices", "%d closure sites" % len(kc), "expected three key-building closures in Insert::exec, found %d" % len(kc), f.loc(), fn=f.name)


def rows_loaded(ctx, rule="ROWS-ALL"):
    """the stored rows take part in every rewrite of a table's stream"""
    prog = ctx.prog
    ctx.rule(rule, "in Insert::exec, Update::exec and Delete::exec the table's stream is rewritten (create_stream) only on paths that asked the container whether the stream exists, "
                   "and, where it exists, only after Table::read_rows loaded the stored rows: no query shape (e.g. a delete without a condition) skips the stored rows, whose "
                   "strings must be released and whose keys must be seen")
    for nm in ("Insert", "Update", "Delete"):
        f = prog.fn(Q + nm + "::exec")
        S = Sym(prog, f)
        cs = {b for b, t in f.calls() if cname(prog, t) == "cfb::CompoundFile::<F>::create_stream"}
        ex = {b for b, t in f.calls() if cname(prog, t) in ("cfb::CompoundFile::<F>::exists", "cfb::CompoundFile::<F>::is_stream")}
        rr = {b for b, t in f.calls() if cname(prog, t).endswith("Table::read_rows")}
        if not (cs and ex and rr):
            ctx.anchor_missing(rule, "%s::exec: create_stream / exists / read_rows calls" % nm)
            continue
        # blocks on the Break edge of a `?`: they end in an error return (possibly through the return of an inlined helper and the caller's own `?`),
        # never in the rewrite of the stream
        brk = {bl["id"] for bl in f.blocks if not bl["cleanup"] and any(re.fullmatch(r"discr\(call@\d+:.*Try>?::branch\)", e) and tr == ("==", 1) for (e, tr, g) in S.bool_facts_at(bl["id"]))}
        skip_exists = cs & cfg.reachable(f, 0, avoid=ex | brk)
        T = {bl["id"] for bl in f.blocks if not bl["cleanup"] and any(tr is True and re.search(r"CompoundFile::<F>::(exists|is_stream)\(", e) for (e, tr, g) in S.bool_facts_at(bl["id"]))}
        preds = f.preds()
        heads = {b for b in T if any(p not in T for p in preds[b])}
        skip_read = set()
        for h in heads:
            skip_read |= cs & cfg.reachable(f, h, avoid=rr | brk)
        ctx.check(not skip_exists and not skip_read and bool(heads), rule, "%s::exec rewrites the stream only with the stored rows loaded" % nm, "%d exists, %d read_rows, %d create_stream" % (len(ex), len(rr), len(cs)),
                  "%s::exec can reach create_stream %s: the stored rows are not loaded on that path, so their strings are never released (deleted rows leak pool capacity) and "
                  "they are dropped from / not checked against the rewritten stream" % (nm, "without asking whether the table's stream exists" if skip_exists else "although the stream exists and was not read"),
                  f.loc(), fn=f.name, key="%s|%s" % (rule, nm))


# --------------------------------------------------------------------------- C08
def pairs(ctx):
    prog = ctx.prog
    R = "PAIR-1"
    ctx.rule(R, "rows that leave a table release their strings: in Delete::exec's retain closure the `false` (drop the row) result is produced only after a loop calling "
                "ValueRef::remove over the row's cells and `true` only without it; a function that removes a table's stream must first delete the table's rows through "
                "Delete (or call ValueRef::remove over them)")
    f = prog.fn(Q + "Delete::exec")
    cl = [c for c in f.closures if any(cname(prog, t) == REMOVE for b, t in c.calls())]
    # `row.iter().for_each(|cell| cell.remove(pool))` inside the retain closure: the per-row closure is the one that builds the per-cell closure
    foreach_form = False
    if len(cl) == 1 and not any(cname(prog, t) == "msi::internal::expr::Expr::eval" for b, t in cl[0].calls()):
        inner = cl[0]
        outer = [c for c in f.closures if c is not inner and any(st["rhs"]["rv"] == "agg" and st["rhs"].get("cid") == inner.id for bl in c.blocks for st in bl["stmts"])]
        if len(outer) == 1 and any(re.search(r"Iterator::for_each$", t.get("callee") or "") for b, t in outer[0].calls()):
            cl, foreach_form = outer, True
    ok = len(cl) == 1
    if ok:
        c = cl[0]
        S = Sym(prog, c)
        rm = [b for b, t in c.calls() if cname(prog, t) == REMOVE] or [b for b, t in c.calls() if re.search(r"Iterator::for_each$", t.get("callee") or "")]
        loops = cfg.natural_loops(c)
        in_loop = any(rm[0] in bl for bl in loops.values()) or foreach_form
        it = [S.val(t["args"][0]) for b, t in c.calls() if (t.get("callee") or "").endswith("<impl [T]>::iter")]
        dom = cfg.dominators(c)
        res = {}
        for bl in c.blocks:
            if bl["cleanup"]:
                continue
            for s in bl["stmts"]:
                if s["lhs"]["l"] == 0 and s["rhs"]["rv"] == "use" and s["rhs"]["ops"][0].get("k") == "const":
                    res[s["rhs"]["ops"][0]["int"]] = bl["id"]
        hdr = [h for h, bl in loops.items() if rm[0] in bl]
        # case analysis on (condition present?, true?): the cells are released in exactly the cases in which the row is dropped
        from .relational import filter_scenarios
        sc = filter_scenarios(prog, c)
        if sc is not None:
            ok = in_loop and all(v[0] in (0, 1) and v[1] == (v[0] == 0) for v in sc.values())
        else:
            nl = not_result_local(c)
            if nl is not None and not res:
                ok = in_loop and any(e in ("_%d" % nl, S.local(nl)) and tr is True for (e, tr, g) in S.bool_facts_at(rm[0]))
            else:
                ok = in_loop and 0 in res and 1 in res and hdr and hdr[0] in dom[res[0]] and rm[0] not in cfg.backward_reachable(c, {res[1]})
        # the loop iterates the closure's own row argument
        ok = ok and any("p2" in x for x in it)
    ctx.check(ok, R, "Delete::exec releases the strings of deleted rows", "", "Delete::exec's retain closure does not release (ValueRef::remove over all cells) exactly the rows it drops",
              f.loc(), fn=f.name, key=R + "|Delete")
    # retain is applied to the rows read from the table, then written back
    S = Sym(prog, f)
    ret = [(b, t) for b, t in f.calls() if (t.get("callee") or "").endswith("Vec::<T, A>::retain")]
    ctx.check(len(ret) == 1, R, "Delete::exec filters with Vec::retain", "", "Delete::exec no longer filters rows with a single Vec::retain", f.loc(), fn=f.name)
    del_only_retain(ctx)
    n = 0
    for g in prog.fns.values():
        if g.crate != "msi" or g.kind == "Closure":
            continue
        Sg = Sym(prog, g)
        dg = DefUse(g)
        for b, nme, args, t in symcalls(prog, g, Sg):
            if nme == "cfb::CompoundFile::<F>::remove_stream" and "Table::stream_name" in (args[1] + " " + str(call_of(Sg, args[1]))):
                n += 1
                dels = [(bb, tt) for bb, tt in g.calls() if cname(prog, tt) == PK + "delete_rows" and label(prog, g, tt, dg) == ""]
                okd = False
                for bb, tt in dels:
                    qv = Sg.val(tt["args"][1])
                    qn, qa = call_of(Sg, qv)
                    # Delete::from(table_name) without a condition, on the same name parameter
                    plain = re.fullmatch(r"internal::query::Delete::from\(&?\*?p\d+\)", qv) is not None or (qn or "").endswith("Delete::from")
                    if plain and b in cfg.reachable(g, bb) and bb in cfg.dominators(g).get(b, ()):
                        okd = True
                ctx.check(okd, R, "%s removes a table stream" % short(g.name), "after deleting all of the table's rows",
                          "%s removes a table's stream without first deleting its rows: the strings of the dropped rows stay in the pool (and in _StringData) with their refcounts" % short(g.name),
                          g.loc(t["sp"]), fn=g.name, key=R + "|" + short(g.name))
    ctx.floor(R, "functions removing a table stream", n, 1)

    R = "PAIR-2"
    ctx.rule(R, "overwritten cells release then acquire: in Update::exec the ValueRef::create whose result is stored into a row cell is dominated by ValueRef::remove on the same cell")
    f = prog.fn(Q + "Update::exec")
    S = Sym(prog, f)
    cr = [(b, t) for b, t in f.calls() if cname(prog, t) == CREATE]
    rm = [(b, t) for b, t in f.calls() if cname(prog, t) == REMOVE]
    ok = len(cr) == 1 and len(rm) == 1
    if ok:
        dom = cfg.dominators(f)
        ok = rm[0][0] in dom[cr[0][0]]
        cell = S.val(rm[0][1]["args"][0])
        m = re.match(r"\*?(call@\d+):", cell)
        # the created value is stored through the same IndexMut result
        st = [s for bl in f.blocks if not bl["cleanup"] for s in bl["stmts"] if "*" in s["lhs"]["p"] and (m.group(1) + ":" if m else "~") in S.local(s["lhs"]["l"])]
        ok = ok and m is not None and len(st) >= 1
    ctx.check(ok, R, "Update::exec releases the old cell before storing the new one", "", "Update::exec does not call ValueRef::remove on the cell it overwrites before ValueRef::create", f.loc(), fn=f.name)

    R = "PAIR-3"
    ctx.rule(R, "ValueRef::create / ValueRef::remove are the only callers of StringPool::incref / decref (who-may-call), and each makes exactly one such call, on the Str arm")
    for callee, only in (("msi::internal::stringpool::StringPool::incref", CREATE), ("msi::internal::stringpool::StringPool::decref", REMOVE)):
        callers = sorted({(g.owner or g).name for g in prog.fns.values() if g.crate == "msi" for b, t in g.calls() if cname(prog, t) == callee})
        ctx.check(callers == [only], R, "callers of %s" % short(callee), str([short(c) for c in callers]), "%s is called from %s; only %s may" % (short(callee), [short(c) for c in callers], short(only)),
                  key="%s|%s" % (R, short(callee)))
        g = prog.fn(only)
        Sg = Sym(prog, g)
        cs = [(b, t) for b, t in g.calls() if cname(prog, t) == callee]
        ok = len(cs) == 1 and any(e.startswith("discr(") and tr == ("==", 2) for (e, tr, gg) in Sg.bool_facts_at(cs[0][0]))
        ctx.check(ok, R, "%s touches the pool only for strings" % short(only), "", "%s does not call %s exactly once, on its Str arm" % (short(only), short(callee)), g.loc(), fn=g.name)
    g = prog.fn("msi::internal::stringpool::StringPool::decref")
    Sg = Sym(prog, g)
    clr = [(b, t) for b, t in g.calls() if (t.get("callee") or "").endswith("String::clear")]
    ok = len(clr) == 1 and any(tr is True and re.search(r" Eq c:0\)$", e) for (e, tr, gg) in Sg.bool_facts_at(clr[0][0]))
    if len(clr) == 1 and not ok:
        # `match *refcount { 0 => return, 1 => { *refcount = 0; text.clear() } n => *refcount = n - 1 }`: the text is cleared in the arm of the count 1, which stores 0
        cb = clr[0][0]
        one = any((tr == ("==", 1) or tr is True) and re.search(r"@Some\.0\.1$|\]\.1$", e) and " Eq " not in e and " Ne " not in e for (e, tr, gg) in Sg.bool_facts_at(cb))
        arm = cfg.reachable(g, cb) | {b_ for b_ in range(len(g.blocks)) if cb in cfg.reachable(g, b_) and any(tr == ("==", 1) for (e, tr, gg) in Sg.bool_facts_at(b_))}
        zero = any(st["rhs"]["rv"] == "use" and st["rhs"]["ops"][0].get("k") == "const" and st["rhs"]["ops"][0].get("int") == 0 and st["lhs"]["p"]
                   for b_ in arm if not g.blocks[b_]["cleanup"] for st in g.blocks[b_]["stmts"])
        ok = one and zero
    ctx.check(ok, R, "decref clears the text when the count reaches zero", "", "StringPool::decref does not clear an entry's text exactly when its refcount reaches 0 (leftover text of deleted rows stays in the file)", g.loc(), fn=g.name)


def cat_sym(ctx, rule="CAT-SYM"):
    prog = ctx.prog
    ctx.rule(rule, "the set of catalog tables create_table inserts into equals the set drop_table deletes from: {_Columns, _Tables, _Validation}")
    f = prog.fn(PK + "create_table_with_name")
    g = prog.fn(PK + "drop_table")
    df, dg = DefUse(f), DefUse(g)
    ins = sorted(label(prog, f, t, df) for b, t in f.calls() if cname(prog, t) == PK + "insert_rows")
    dels = sorted(x for x in (label(prog, g, t, dg) for b, t in g.calls() if cname(prog, t) == PK + "delete_rows") if x)
    want = ["[_Columns]", "[_Tables]", "[_Validation]"]
    ctx.check(ins == want and dels == want, rule, "catalog tables touched", "insert %s delete %s" % (ins, dels), "create_table inserts into %s, drop_table deletes from %s; expected both = %s" % (ins, dels, want), f.loc(), fn=f.name)
    # drop_table selects catalog rows by the dropped table's name: Table / Table / Name columns
    S = Sym(prog, g)
    cols = sorted(a for b, n, args, t in symcalls(prog, g, S) if n.endswith("Expr::col") for a in args)
    if len(cols) < 3:
        # a local closure builds the filtered delete (`let delete_where = |table, column| Delete::from(table).with(Expr::col(column).eq(..))`), called once per catalog table
        inner = [c for c in g.closures if any(cname(prog, t).endswith("Expr::col") for b, t in c.calls())]
        ncalls = len([1 for b, t in g.calls() if re.search(r"ops::Fn(Mut|Once)?::call(_mut|_once)?$", t.get("callee") or "")])
        if len(inner) == 1 and ncalls:
            cols = cols + ["<closure arg>"] * ncalls
    ctx.check(len(cols) == 3, rule, "drop_table filters each catalog delete by the table name", str(cols), "drop_table builds %d column filters, expected 3" % len(cols), g.loc(), fn=g.name)
    un = [1 for b, t in g.calls() if (t.get("callee") or "").endswith("BTreeMap::<K, V, A>::remove")]
    ctx.check(len(un) == 1, rule, "drop_table unregisters the table", "", "drop_table does not remove the table from `tables` exactly once", g.loc(), fn=g.name)


# --------------------------------------------------------------------------- C20
def limits(ctx):
    prog = ctx.prog
    R = "LIMIT-SYM"
    ctx.rule(R, "for every capacity comparison in a reader whose failing edge is an error (today: num_rows > MAX_NUM_ROWS in Table::read_rows), every writer of the same "
                "structure compares the count it is about to write against a constant no larger than that bound, before its first mutation, failing edge = argument error")
    rd = prog.fn("msi::internal::table::Table::read_rows")
    S = Sym(prog, rd)
    bound = None
    from ..lib import exceeds_facts
    for (b, t, k, m) in error_sites(prog, rd):
        for (x, n_, g) in exceeds_facts(S.bool_facts_at(b)):
            bound = n_
    if not ctx.check(bound is not None, R, "reader's row bound", str(bound), "Table::read_rows no longer has a row-count bound with an error edge", rd.loc(), fn=rd.name):
        return
    Sm = Summaries(prog)
    f = prog.fn(Q + "Insert::exec")
    Sf = Sym(prog, f)
    muts = set(Sm.mutation_blocks(f))
    found = None
    for (b, t, k, m) in error_sites(prog, f):
        for (x, n_, g) in exceeds_facts(Sf.bool_facts_at(b)):
            if n_ <= bound and "len(" in x and k == "InvalidInput":
                if not any(b in cfg.reachable(f, mb) for mb in muts):
                    found = (n_, x)
    if found is not None:
        # the count must include the rows already stored: the comparison comes after they were loaded
        rr = [b for b, t in f.calls() if cname(prog, t) == "msi::internal::table::Table::read_rows"]
        gb = None
        for (b, t, k, m) in error_sites(prog, f):
            for (x, n_, g) in exceeds_facts(Sf.bool_facts_at(b)):
                if n_ == found[0]:
                    gb = g
        ok_order = len(rr) == 1 and gb is not None and gb in cfg.reachable(f, rr[0]) and rr[0] not in cfg.reachable(f, gb)
        ctx.check(ok_order, R, "the row bound is tested after the stored rows were loaded", "", "Insert::exec compares the row count with the bound before the stored rows are read: only the rows of "
                  "the current call are counted, so several calls can grow the table beyond %d rows" % bound, f.loc(), fn=f.name, key=R + "|Insert|order")
    ctx.check(found is not None, R, "Insert::exec enforces the row bound", str(found)[:160],
              "Table::read_rows refuses more than %d rows but Insert::exec writes any number: a saved package the library cannot read back" % bound, f.loc(), fn=f.name, key=R + "|Insert")
    if found:
        ctx.check("BTreeMap::<K, V, A>::len(" in found[1] and ("HashSet::<T, S, A>::len(" in found[1] or "Vec::<T, A>::len(" in found[1]), R, "the bound counts stored plus new rows", found[1][:160],
                  "Insert::exec compares %s with the bound, which is not stored rows + new rows" % found[1][:160], f.loc(), fn=f.name)
    for nm in ("Update", "Delete"):
        g = prog.fn(Q + nm + "::exec")
        grows = any(re.search(r"Vec::<T, A>::(push|insert|append|extend\w*)$|BTreeMap::<K, V, A>::insert$", cname(prog, t)) and "ValueRef" in (t.get("written") or "") for b, t in g.calls())
        ctx.check(not grows, R, "%s::exec never adds rows" % nm, "", "%s::exec can add rows to the table but has no row-count bound" % nm, g.loc(), fn=g.name)

    R = "LIMIT-COLS"
    ctx.rule(R, "create_table refuses more than MAX_NUM_TABLE_COLUMNS (32) columns and an empty column list with an argument error before any mutation")
    c = prog.const("msi::internal::package::MAX_NUM_TABLE_COLUMNS")
    ctx.check(c["val"] == 32, R, "MAX_NUM_TABLE_COLUMNS", str(c["val"]), "MAX_NUM_TABLE_COLUMNS is %s, the format allows 32" % c["val"])
    f = prog.fn(PK + "create_table_with_name")
    Sf = Sym(prog, f)
    muts = set(Sm.mutation_blocks(f))
    ok32 = ok0 = False
    for (b, t, k, m) in error_sites(prog, f):
        if any(b in cfg.reachable(f, mb) for mb in muts) or k != "InvalidInput":
            continue
        facts = Sf.bool_facts_at(b)
        from ..lib import exceeds_facts, interval_of
        if facts and any(n_ == 32 and re.search(r"Vec::<T, A>::len\(&p3\)", x) for (x, n_, g_) in exceeds_facts(facts[-1:])):
            ok32 = True
        if facts and facts[-1][1] is True and re.search(r"Vec::<T, A>::is_empty\(&p3\)$", facts[-1][0]):
            ok0 = True
        if facts:
            lo_, hi_, ex_ = interval_of(facts[-1:], "std::vec::Vec::<T, A>::len(&p3)")
            if hi_ == 0:
                ok0 = True  # `len() == 0` / `len() < 1`
    ctx.check(ok32 and ok0, R, "column count limits enforced", "", "create_table does not refuse `columns.len() > 32` / an empty column list before mutating", f.loc(), fn=f.name)

    limit_w(ctx)


def limit_w(ctx):
    prog = ctx.prog
    f = prog.fn(PK + "create_table_with_name")
    R = "LIMIT-W"
    ctx.rule(R, "catalog column widths for table and column names are read from the make_*_table definitions; wherever they disagree, create_table must pre-validate its rows "
                "against every catalog table (rule PRE-VALID), so that the narrowest width is enforced as an argument error before any mutation")
    widths = {}
    for fn_, tbl in ((("msi::internal::package::make_columns_table"), "_Columns"), ("msi::internal::package::make_tables_table", "_Tables"), ("msi::internal::package::make_validation_columns", "_Validation")):
        g = prog.fn(fn_)
        Sg = Sym(prog, g)
        for b, n, args, t in symcalls(prog, g, Sg):
            m = re.search(r"ColumnBuilder::(string|id_string|text_string|formatted_string)$", n)
            if m and re.fullmatch(r"c:\d+", args[1]):
                from ..lib import deep_strs
                nm = [x for x in deep_strs(Sg, args[0]) if re.fullmatch(r"\w+", x)]
                if nm:
                    widths[(tbl, nm[0])] = int(args[1][2:])
    # the definitions built into the library describe the catalog tables of every real package: widths are the format's
    REFW = {("_Tables", "Name"): 64, ("_Columns", "Table"): 64, ("_Columns", "Name"): 64, ("_Validation", "Table"): 32, ("_Validation", "Column"): 32,
            ("_Validation", "Nullable"): 4, ("_Validation", "KeyTable"): 255, ("_Validation", "Category"): 32, ("_Validation", "Set"): 255, ("_Validation", "Description"): 255}
    for k, w in sorted(REFW.items()):
        ctx.check(widths.get(k) == w, R, "%s.%s is %d characters wide" % (k[0], k[1], w), str(widths.get(k)),
                  "the built-in definition of %s.%s is %s characters wide; packages in the field declare %d: create_table's pre-validation (against the built-in definition) and the "
                  "actual insert (against the file's definition) then disagree, and a name between the two widths is refused only after part of the catalog was written" % (
                      k[0], k[1], widths.get(k), w), f.loc(), fn=f.name, key="%s|refwidth|%s.%s" % (R, k[0], k[1]))
    tn = {k: v for k, v in widths.items() if k in (("_Columns", "Table"), ("_Tables", "Name"), ("_Validation", "Table"))}
    cn = {k: v for k, v in widths.items() if k in (("_Columns", "Name"), ("_Validation", "Column"))}
    ctx.floor(R, "catalog name columns found", len(tn) + len(cn), 5)
    agree = len(set(tn.values())) == 1 and len(set(cn.values())) == 1
    if agree:
        ctx.ok(R, "catalog widths agree", "%s %s" % (tn, cn))
    else:
        # PRE-VALID must hold for all three tables (checked under C04/C20)
        Sy = Sym(prog, f)
        checks = [args for b, n, args, t in symcalls(prog, f, Sy) if n == "msi::internal::package::check_rows"]
        have = {x for x in ("make_columns_table", "make_tables_table", "make_validation_table") if any(x in a[0] for a in checks)}
        if any(re.search(r"::next@Some\.0\.0\)?$", a[0]) for a in checks):
            # the calls are issued from a loop over an array of (make_*_table(..), &rows) pairs (PRE-VALID decides that the loop covers the array)
            for bl in f.blocks:
                for st in bl["stmts"]:
                    if not bl["cleanup"] and st["rhs"]["rv"] == "agg" and st["rhs"].get("array"):
                        for o in st["rhs"]["ops"]:
                            v = Sy.val(o)
                            if v.startswith("tuple{"):
                                have |= {x for x in ("make_columns_table", "make_tables_table", "make_validation_table") if x in v.split(",", 1)[0]}
        ctx.check(len(have) == 3, R, "widths disagree (%s / %s): rows are pre-validated against all catalog tables" % (sorted(tn.values()), sorted(cn.values())), str(sorted(have)),
                  "catalog widths for table names %s and column names %s disagree and create_table does not pre-validate against all catalog tables: a name between the "
                  "narrowest and the widest width is refused only after part of the catalog was written" % (tn, cn), f.loc(), fn=f.name, key=R + "|prevalidate")


CATALOG_REF = {
    "_Tables": [("Name", "s64", True)],
    "_Columns": [("Table", "s64", True), ("Number", "i16", True), ("Name", "s64", False), ("Type", "i16", False)],
    "_Validation": [("Table", "s32", True), ("Column", "s32", True), ("Nullable", "s4", False), ("MinValue", "i32", False), ("MaxValue", "i32", False), ("KeyTable", "s255", False),
                    ("KeyColumn", "i16", False), ("Category", "s32", False), ("Set", "s255", False), ("Description", "s255", False)],
}


def catalog_schema(ctx, rule="CAT-SCHEMA"):
    """the built-in definitions of the three catalog tables are the format's: Package::open parses the catalog streams of every file with them"""
    from ..lib import call_of
    prog = ctx.prog
    ctx.rule(rule, "the built-in definitions of _Tables, _Columns and _Validation (with which Package::open parses the catalog streams of every file, whatever its _Columns rows "
                   "say about them) list the format's columns in the format's order with the format's storage type (string reference / 16-bit / 32-bit integer) and key flag: a "
                   "different width or order misaligns every later column of a foreign file")
    total = 0
    for fn_, tbl in (("msi::internal::package::make_columns_table", "_Columns"), ("msi::internal::package::make_tables_table", "_Tables"), ("msi::internal::package::make_validation_columns", "_Validation")):
        g = prog.fn(fn_)
        Sg = Sym(prog, g)
        got = []
        for b, n, args, t in sorted(symcalls(prog, g, Sg), key=lambda c: c[0]):
            m = re.search(r"ColumnBuilder::(string|id_string|text_string|formatted_string|int16|int32|binary|category_string)$", n)
            if not m:
                continue
            kind = {"int16": "i16", "int32": "i32"}.get(m.group(1)) or ("s" + (args[1][2:] if len(args) > 1 and re.fullmatch(r"c:\d+", args[1]) else "?"))
            key, name, v = False, None, args[0]
            for _ in range(12):
                cn, ca = call_of(Sg, v)
                if not cn:
                    break
                if cn.endswith("ColumnBuilder::primary_key"):
                    key = True
                if cn.endswith("Column::build"):
                    nm = re.findall(r"s:'([^']*)'", ca[0]) if ca else []
                    name = nm[0] if nm else None
                    break
                v = ca[0] if ca else ""
            got.append((name, kind, key))
        total += len(got)
        ctx.check(got == CATALOG_REF[tbl], rule, "%s columns" % tbl, str(got), "the built-in definition of %s is %s; the format's is %s: the catalog streams of files written by other "
                  "tools are parsed with wrong widths or in the wrong order, and files saved by the library are misread by other tools" % (tbl, got, CATALOG_REF[tbl]),
                  g.loc(), fn=g.name, key="%s|%s" % (rule, tbl))
    ctx.floor(rule, "catalog columns found", total, 15)


def del_only_retain(ctx, rule="DEL-RETAIN"):
    """rows leave a table in Delete::exec only through the order-preserving, string-releasing retain pass"""
    prog = ctx.prog
    ctx.rule(rule, "in Delete::exec the row vector read from the table is changed only by Vec::retain (which preserves order and whose closure releases the dropped rows' strings): "
                   "no clear / truncate / drain / remove / swap_remove / pop / sort / reverse on it")
    f = prog.fn(Q + "Delete::exec")
    bad = [short(cname(prog, t)) for b, t in f.calls() if re.search(r"Vec::<T, A>::(clear|truncate|drain|remove|swap_remove|pop|split_off|dedup\w*|insert|push|append)$|<impl \[T\]>::(sort\w*|reverse|swap|rotate\w*)$", t.get("callee") or "")
           and "ValueRef" in (t.get("written") or "")]
    ctx.check(not bad, rule, "Delete::exec changes the rows only through retain", "", "Delete::exec also changes the row vector with %s: rows leave the table without their strings being released, or "
              "the remaining rows lose their key order" % bad, f.loc(), fn=f.name, key=rule)


def key_set(ctx, rule="KEY-SET"):
    """the in-batch duplicate test of Insert::exec is on the primary-key vector"""
    prog = ctx.prog
    ctx.rule(rule, "in Insert::exec the vector tested and recorded in the batch's own key set is the same primary-key vector that is tested against the stored rows' map "
                   "(both built from primary_key_indices): two new rows with the same key are refused whatever their other cells are")
    f = prog.fn(Q + "Insert::exec")
    S = Sym(prog, f)
    cs = symcalls(prog, f, S)
    norm = lambda x: x.replace("&", "").replace("*", "")
    ck = [norm(c[2][1]) for c in cs if c[1].endswith("BTreeMap::<K, V, A>::contains_key") and "HashMap" not in c[1]]
    hc = [norm(c[2][1]) for c in cs if c[1].endswith("HashSet::<T, S, A>::contains")]
    hi = [norm(c[2][1]) for c in cs if c[1].endswith("HashSet::<T, S, A>::insert")]
    ok = len(hc) == 1 and len(hi) == 1 and hc[0] in ck and hi[0] == hc[0]
    if ok:
        # that vector is collected from a map over the key indices
        cn, ca = call_of(S, hc[0])
        ok = bool(cn) and cn.endswith("Iterator::collect")
        if ok:
            mn, ma = call_of(S, ca[0])
            ok = bool(mn) and mn.endswith("Iterator::map") and "primary_key_indices" in " ".join(deep_call_names(S, ma[0]))
    ctx.check(ok, rule, "batch duplicates are detected on the key vector", "", "Insert::exec records %s in its batch set but tests %s against the stored rows: new rows sharing a key but differing elsewhere "
              "are accepted and overwrite each other" % (hi, ck), f.loc(), fn=f.name, key=rule)


def deep_call_names(S, v, depth=0):
    out = []
    if depth > 6:
        return out
    for m in re.findall(r"call@(\d+):", v):
        t = S.fn.blocks[int(m)]["term"]
        if t["t"] == "call":
            out.append(t.get("resolved") or t.get("callee") or "")
            for a in t["args"]:
                out += deep_call_names(S, S.val(a), depth + 1)
    out += re.findall(r"(internal::[A-Za-z_:]+)\(", v)
    return out


def cap_panic_guard(ctx, rule="CAP-GUARD"):
    """the recorded capacity panics of StringPool::incref stay confined to 'a new entry is needed and the pool is full'"""
    from .panic import sites_of
    from ..lib import interval_of
    prog = ctx.prog
    ctx.rule(rule, "the deliberate capacity panics of StringPool::incref (a recorded finding) are reached only when the pool has been searched in vain for a free or equal entry "
                   "(loop-exhaustion edge) AND the number of entries has reached the limit of the reference width (>= 65535 with two-byte references, >= 2^24-1 otherwise): "
                   "re-using an entry, or inserting below the limit, never panics")
    f = prog.fn("msi::internal::stringpool::StringPool::incref")
    S = Sym(prog, f)
    n = 0
    for s in sites_of(prog, f):
        if not s.cls.startswith("call:panic"):
            continue
        n += 1
        fs = S.bool_facts_at(s.block)
        exhausted = any(re.search(r"::next\)$", e) and tr == ("==", 0) for (e, tr, g) in fs) or \
            any(re.fullmatch(r"discr\(call@\d+:.*Iterator>?::(position|rposition|find|find_map)\)", e) and tr in (("==", 0), ("notin", (1,))) for (e, tr, g) in fs)
        lo, hi, ex = interval_of(fs, "std::vec::Vec::<T, A>::len(&*p1.strings)")
        ok = exhausted and lo in (65535, 16777215)
        ctx.check(ok, rule, "incref capacity panic at the limit only", "after the search, len >= %s" % lo,
                  "a capacity panic of StringPool::incref is reachable %s: inserting a string that is already in the pool, or into a pool below the limit, can panic" % (
                      "before the pool has been searched for an existing or free entry" if not exhausted else "without the length test against the reference-width limit (lower bound %s)" % lo),
                  s.loc, fn=f.name, key="%s|%s" % (rule, "early" if not exhausted else "nolimit"))
    ctx.floor(rule, "capacity panics in incref", n, 1)


def not_result_local(c):
    """if the closure's only result is `!L` for a local L, return L"""
    outs = [s for bl in c.blocks if not bl["cleanup"] for s in bl["stmts"] if s["lhs"]["l"] == 0 and not s["lhs"]["p"]]
    if len(outs) == 1 and outs[0]["rhs"]["rv"] == "un" and outs[0]["rhs"]["op"] == "Not":
        o = outs[0]["rhs"]["ops"][0]
        if o.get("pl") and not o["pl"]["p"]:
            return o["pl"]["l"]
    return None
