"""C17: conditions on the LANGUAGES table for the lookups actually used, plus the fallback constants."""
import json
import os
import re

from ..lib import calls, cname, short
from ..sym import Sym

VERIF = os.path.dirname(os.path.dirname(os.path.dirname(os.path.abspath(__file__))))


def _rhs_val(S, st):
    """symbolic value of a statement's right-hand side, through the temporary the Sym evaluator would create for it"""
    r = st["rhs"]
    if r["rv"] == "use":
        return S.val(r["ops"][0])
    if r["rv"] == "agg":
        return "%s{%s}" % (r.get("adt") or "?", ",".join(S.val(o) for o in r["ops"]))
    return "?%s" % r["rv"]


def run(ctx):
    prog = ctx.prog
    k = prog.const("msi::internal::language::LANGUAGES")
    L = k["lit"]
    loc = "%s:%d" % (k["span"]["file"], k["span"]["line"])
    if not isinstance(L, list) or not L or any((not isinstance(e, list) or len(e) != 3) for e in L):
        ctx.anchor_missing("LANG-TABLE", "LANGUAGES literal table of (code, tag, [(code, tag)])")
        return
    nsub = sum(len(e[2]) for e in L)
    ctx.floor("LANG-TABLE", "languages", len(L), 100)
    ctx.floor("LANG-TABLE", "sub-languages", nsub, 150)
    mask = prog.const("msi::internal::language::LANG_MASK")["val"]
    shift = prog.const("msi::internal::language::SUBLANG_SHIFT")["val"]
    f_tag = prog.fn("msi::internal::language::Language::tag")
    f_from = prog.fn("msi::internal::language::Language::from_tag")
    f_new = prog.fn("msi::internal::language::Language::new")

    # which search does tag() use?
    bs = calls(prog, f_tag, r"binary_search")
    ctx.rule("LANG-SORT", "tag() looks codes up with binary_search*, so the language list and every sub-language list must be strictly "
                          "increasing in code (the obligation lapses if the lookup becomes linear)")
    if bs:
        codes = [e[0] for e in L]
        bad = [(codes[i], codes[i + 1]) for i in range(len(codes) - 1) if not codes[i] < codes[i + 1]]
        ctx.check(not bad, "LANG-SORT", "language codes strictly increasing", "%d codes" % len(codes),
                  "language codes out of order (binary search misses them): %s" % bad[:5], loc)
        for (lc, lt, subs) in L:
            sc = [s[0] for s in subs]
            bad = [(sc[i], sc[i + 1]) for i in range(len(sc) - 1) if not sc[i] < sc[i + 1]]
            ctx.check(not bad, "LANG-SORT", "sub-language codes of %s strictly increasing" % lt, "%d codes" % len(sc),
                      "sub-language codes of %s out of order (binary search misses them): %s" % (lt, bad[:5]), loc,
                      key="LANG-SORT|sub|%s" % lt)
        ctx.floor("LANG-SORT", "binary searches in tag()", len(bs), 2)
    else:
        ctx.ok("LANG-SORT", "tag() does not use binary search", "order obligation lapsed", f_tag.loc())

    ctx.rule("LANG-UNIQ", "language tags unique; language codes unique; sub-language tags unique across the table and codes unique per "
                          "language; every sub-language tag starts with its language tag + '-'; no language tag contains '-' (from_tag "
                          "splits at the first '-' and compares the whole tag with sub-language tags)")
    tags = [e[1] for e in L]
    ctx.check(len(set(tags)) == len(tags), "LANG-UNIQ", "language tags unique", "", "duplicate language tags: %s" % sorted({t for t in tags if tags.count(t) > 1}), loc)
    codes = [e[0] for e in L]
    ctx.check(len(set(codes)) == len(codes), "LANG-UNIQ", "language codes unique", "", "duplicate language codes: %s" % sorted({t for t in codes if codes.count(t) > 1}), loc)
    ctx.check(not [t for t in tags if "-" in t], "LANG-UNIQ", "language tags contain no '-'", "", "language tags containing '-': %s" % [t for t in tags if "-" in t], loc)
    subtags = [s[1] for e in L for s in e[2]]
    ctx.check(len(set(subtags)) == len(subtags), "LANG-UNIQ", "sub-language tags unique", "", "duplicate sub-language tags: %s" % sorted({t for t in subtags if subtags.count(t) > 1}), loc)
    for (lc, lt, subs) in L:
        bad = [s[1] for s in subs if not s[1].startswith(lt + "-")]
        sc = [s[0] for s in subs]
        ctx.check(not bad and len(set(sc)) == len(sc), "LANG-UNIQ", "sub-languages of %s" % lt, "%d entries" % len(subs),
                  "sub-language tags not under '%s-': %s; duplicate codes: %s" % (lt, bad, sorted({c for c in sc if sc.count(c) > 1})), loc,
                  key="LANG-UNIQ|sub|%s" % lt)

    # ... and if from_tag splits at the LAST '-' instead, the language part of a tag with two hyphens (uz-Cyrl-UZ) is not a language tag of the table
    last = [short(cname(prog, t)) for g in prog.unit(f_from) for b_, t in g.calls() if re.search(r"<impl str>::(rsplit_once|rsplitn|rsplit|rfind|rsplit_terminator)$", cname(prog, t))]
    multi = [t for t in subtags if t.count("-") > 1]
    ctx.check(not (last and multi), "LANG-UNIQ", "the split of from_tag finds the language part of every sub-language tag", "%d tags with two hyphens" % len(multi),
              "from_tag splits at the last '-' (%s) and the table holds %s: the part in front is no language tag, so the tag the library prints for that code reads back as the "
              "neutral language" % (last, multi[:4]), f_from.loc(), fn=f_from.name, key="LANG-UNIQ|split")

    ctx.rule("LANG-FIT", "every language code fits LANG_MASK and is non-zero, every sub-language code is in 1..63 (fits `<< SUBLANG_SHIFT` in 16 "
                         "bits and is distinguishable from the neutral sub-language); LANG_MASK == (1 << SUBLANG_SHIFT) - 1; the constants used "
                         "by Language::new and Language::tag agree with them")
    ctx.check(mask == (1 << shift) - 1 and shift == 10, "LANG-FIT", "LANG_MASK/SUBLANG_SHIFT", "mask %#x shift %d" % (mask, shift),
              "LANG_MASK %#x is not (1 << SUBLANG_SHIFT=%d) - 1 (or the split is not the Windows 10/6 split)" % (mask, shift), loc)
    bad = [e[0] for e in L if not (0 < e[0] <= mask)]
    ctx.check(not bad, "LANG-FIT", "language codes within LANG_MASK", "", "language codes outside 1..%d: %s" % (mask, bad), loc)
    bad = [(e[1], s[0]) for e in L for s in e[2] if not (0 < s[0] < (1 << (16 - shift)))]
    ctx.check(not bad, "LANG-FIT", "sub-language codes within 6 bits", "", "sub-language codes outside 1..63: %s" % bad, loc)
    # constants in the code
    S = Sym(prog, f_tag)
    keys = [S.val(t["args"][1]) for b, t in calls(prog, f_tag, r"binary_search")]
    exact = sorted(k.lstrip("&") for k in keys) == sorted(["(*p1.code BitAnd c:%d)" % mask, "(*p1.code Shr c:%d)" % shift])
    ctx.check(exact, "LANG-FIT", "tag() searches by exactly (code & LANG_MASK) and (code >> SUBLANG_SHIFT)", str(keys),
              "tag() searches by %s; expected exactly code & %d and code >> %d (a further mask on the 6-bit sub-language aliases unknown sub-languages onto known ones)" % (keys, mask, shift),
              f_tag.loc(), fn=f_tag.name, key="LANG-FIT|keys")
    txt = " ".join(S.val(a) for b, t in calls(prog, f_tag, r"binary_search") for a in t["args"])
    ctx.check(("BitAnd c:%d)" % mask) in txt, "LANG-FIT", "tag() masks the language with LANG_MASK", "", "tag() does not search the language by `code & %d`: %s" % (mask, txt[:200]), f_tag.loc(), fn=f_tag.name)
    ctx.check(("Shr c:%d)" % shift) in txt, "LANG-FIT", "tag() shifts the sub-language by SUBLANG_SHIFT", "", "tag() does not search the sub-language by `code >> %d`: %s" % (shift, txt[:200]), f_tag.loc(), fn=f_tag.name)
    # both searches key on tuple field 0 (the code): closures passed read .0
    from ..lib import lifted_closures as _lc
    key_closures = [L.fn for L in _lc(prog, f_tag, S) if L.call_block is not None and "binary_search" in (f_tag.blocks[L.call_block]["term"].get("callee") or "")]
    ctx.floor("LANG-FIT", "key closures of tag()'s binary searches", len(key_closures), 2 if bs else 0)
    for c in key_closures:
        reads = [s for b in c.blocks for s in b["stmts"] if s["lhs"]["l"] == 0]
        v = Sym(prog, c).val({"k": "copy", "pl": {"l": 0, "p": []}}) if False else None
        r = [Sym(prog, c).val(s["rhs"]["ops"][0]) for s in reads if s["rhs"]["rv"] == "use"]
        ctx.check(any(x.endswith(".0") for x in r), "LANG-FIT", "tag() search key of %s" % c.path.rsplit("::", 1)[-1], "keys on field 0 (code)",
                  "binary search key closure does not return the code field: %s" % r, c.loc(), fn=f_tag.name)
    Sn = Sym(prog, f_new)
    agg = [s for b in f_new.blocks for s in b["stmts"] if s["rhs"]["rv"] == "agg" and (s["rhs"].get("adt") or "").endswith("Language")]
    v = Sn.val(agg[0]["rhs"]["ops"][0]) if agg else ""
    ctx.check(v in ("(p1 BitOr (p2 Shl c:%d))" % shift, "((p2 Shl c:%d) BitOr p1)" % shift), "LANG-FIT", "Language::new composes lang | (sublang << SUBLANG_SHIFT)", v,
              "Language::new builds the code as %s" % v, f_new.loc(), fn=f_new.name)

    ctx.rule("LANG-CODE", "Language::from_code stores its argument unchanged on every path (or recomposes it from exactly `code & LANG_MASK` and `code >> SUBLANG_SHIFT`), "
                          "and Language::code returns the stored field: a code is never normalised, so every 16-bit identifier read from a summary is written back as it was")
    f_fc = prog.fn("msi::internal::language::Language::from_code")
    f_code = prog.fn("msi::internal::language::Language::code")
    for (g, want, what) in ((f_fc, (r"internal::language::Language\{p1\}", r"internal::language::Language::new\(\(p1 BitAnd c:%d\),\(p1 Shr c:%d\)\)" % (mask, shift)), "from_code"),
                            (f_code, (r"\*p1\.code", r"p1\.code"), "code")):
        Sg = Sym(prog, g)
        rets = []
        for bl in g.blocks:
            if bl["cleanup"]:
                continue
            for st in bl["stmts"]:
                if st["lhs"]["l"] == 0 and not st["lhs"]["p"]:
                    rets.append(_rhs_val(Sg, st))
            t = bl["term"]
            if t["t"] == "call" and t["dest"]["l"] == 0 and not t["dest"]["p"]:
                rets.append("%s(%s)" % (re.sub(r"^msi::", "", t.get("callee") or "?"), ",".join(Sg.val(a) for a in t["args"])))
        bad = [r for r in rets if not any(re.fullmatch(w, r) for w in want)]
        ctx.check(bool(rets) and not bad, "LANG-CODE", "Language::%s preserves the code" % what, str(rets[:2]),
                  "Language::%s can yield %s instead of the unchanged code: identifiers are rewritten when a package is read and saved" % (what, bad[:3]),
                  g.loc(), fn=g.name, key="LANG-CODE|%s" % what)

    ctx.rule("LANG-REF", "every table entry that also occurs in the frozen Windows reference (by code or by tag) agrees with it; the six "
                         "identifiers the property names are present")
    with open(os.path.join(VERIF, "tables", "language_ref.json")) as f:
        ref = json.load(f)
    code2tag = {}
    for (lc, lt, subs) in L:
        for (sc, st) in subs:
            code2tag[lc | (sc << shift)] = st
    tag2code = {v: k for k, v in code2tag.items()}
    for c, t in sorted(ref["pairs"].items()):
        c = int(c)
        have_t = code2tag.get(c)
        have_c = tag2code.get(t)
        if have_t is None and have_c is None:
            if c in ref["required"]:
                ctx.violation("LANG-REF", "%d %s" % (c, t), "well-known identifier %d (%s) is missing from the table" % (c, t), loc)
            continue
        ctx.check(have_t == t and have_c == c, "LANG-REF", "%d %s" % (c, t), "agrees",
                  "table maps %d -> %s and %s -> %s; Windows defines %d = %s" % (c, have_t, t, have_c, c, t), loc, key="LANG-REF|%d" % c)

    ctx.rule("LANG-FALLBACK", "in from_tag, every sub-language passed to Language::new as a constant (not read from the table) is 0 or a code "
                              "that is no real sub-language of any language; the language passed as a constant is 0; the final fall-through "
                              "constructs (0, 0); tag()'s unknown-language result is \"und\"")
    real_sub = {s[0] for e in L for s in e[2]}
    news = calls(prog, f_from, r"Language::new$")
    ctx.floor("LANG-FALLBACK", "Language::new calls in from_tag", len(news), 2)
    Sf = Sym(prog, f_from)
    both_const = 0
    for b, t in news:
        a0, a1 = t["args"]
        if a0.get("k") == "const":
            ctx.check(a0.get("int") == 0, "LANG-FALLBACK", "constant language in from_tag", "0 (neutral)",
                      "constant language %s passed to Language::new" % a0.get("int"), f_from.loc(t["sp"]), fn=f_from.name)
        if a1.get("k") == "const":
            c = a1.get("int")
            langs = [e[1] for e in L if any(s[0] == c for s in e[2])]
            ctx.check(c == 0 or c not in real_sub, "LANG-FALLBACK", "constant sub-language %s in from_tag" % c, "not a real region",
                      "a tag with a known language but unknown region maps to sub-language %s, which is a real region of %s "
                      "(e.g. an unknown English region becomes the code of a different, known variant)" % (c, ", ".join(langs[:8])),
                      f_from.loc(t["sp"]), fn=f_from.name, key="LANG-FALLBACK|const-sublang")
        if a0.get("k") == "const" and a1.get("k") == "const":
            both_const += 1
            # the neutral language is the answer only once the language table has been searched in vain
            fs = Sf.bool_facts_at(b)
            SRCH = r"Iterator>?::next\)?$|::next\)$|Iterator>?::(find|find_map|position)\)$"
            exhausted = any(re.search(SRCH, e) and tr in (("==", 0), ("notin", (1,))) for (e, tr, g) in fs)
            other = [e[:80] for (e, tr, g) in fs if not re.search(SRCH, e)]
            ctx.check(exhausted and not other, "LANG-FALLBACK", "neutral result only after the table is exhausted", "",
                      "from_tag returns the neutral language on a path that has not searched the whole language table (conditions: %s): a tag that is in the table "
                      "can map to code 0" % (other or "no loop-exhaustion fact"), f_from.loc(t["sp"]), fn=f_from.name, key="LANG-FALLBACK|neutral-early")
    ctx.check(both_const >= 1, "LANG-FALLBACK", "fall-through constructs the neutral language", "", "no Language::new(0, 0) fall-through in from_tag", f_from.loc(), fn=f_from.name)
    strs = [Sym(prog, f_tag).val(o) for b in f_tag.blocks for s in b["stmts"] for o in s["rhs"].get("ops", []) if o.get("k") == "const" and "str" in o]
    ctx.check("s:'und'" in strs, "LANG-FALLBACK", "tag() of an unknown language", "\"und\"", "tag() has no \"und\" result: %s" % strs, f_tag.loc(), fn=f_tag.name)
    # tag(): "und" only when the LANGUAGE is unknown; a known language with an unknown sub-language yields the bare language tag
    St = Sym(prog, f_tag)
    und_ok, bare = [], []
    for bl in f_tag.blocks:
        if bl["cleanup"]:
            continue
        for st in bl["stmts"]:
            r = st["rhs"]
            v = St.val(r["ops"][0]) if r.get("ops") else (St.place(r["pl"]) if "pl" in r else "")
            fs = [(e, tr) for (e, tr, g) in St.bool_facts_at(bl["id"]) if "binary_search" in e]
            if v == "s:'und'":
                und_ok.append(len(fs) == 1 and fs[0][1] in (("==", 1), ("notin", (0,))))
            if re.fullmatch(r"[*&]*k:internal::language::LANGUAGES\[(?:(?!\]\.2\[).)*\]\.1", v):
                bare.append(len(fs) == 2 and fs[0][1] in (("==", 0), ("notin", (1,))) and fs[1][1] in (("==", 1), ("notin", (0,))))
    BARE = r"[*&]*k:internal::language::LANGUAGES\[(?:(?!\]\.2\[).)*\]\.1"
    for b_, t_ in calls(prog, f_tag, r"Result::<T, E>::(map_or|unwrap_or)$"):
        # `second_search.map_or(lang_tag, |i| sublangs[i].1)`: the default (search failed) is the bare language tag
        a_ = [St.val(x) for x in t_["args"]]
        fs = [(e, tr) for (e, tr, g) in St.bool_facts_at(b_) if "binary_search" in e]
        if len(a_) >= 2 and re.fullmatch(r"call@\d+:.*binary_search\w*", a_[0]) and re.fullmatch(BARE, a_[1]):
            bare.append(len(fs) == 1 and fs[0][1] in (("==", 0), ("notin", (1,))))
    ctx.check(bool(und_ok) and all(und_ok) and any(bare), "LANG-FALLBACK", "tag(): unknown sub-language falls back to the bare language", "",
              "tag() does not return the language's own tag when only the sub-language is unknown (\"und\" under %s, bare-language result under unknown sub-language: %s): "
              "a code such as 0x3c09 reads \"und\" instead of \"en\"" % (und_ok, bare), f_tag.loc(), fn=f_tag.name, key="LANG-FALLBACK|tag-bare")
    # from_tag compares the language tag with parts[0] and the sub-language tag with the whole tag (in the function or in a closure it builds)
    from ..lib import closure_caps, outer_view
    caps = closure_caps(prog, f_from, Sf)
    ev = []
    for g in prog.unit(f_from):
        Sg = Sf if g is f_from else Sym(prog, g)
        for b, t in calls(prog, g, r"PartialEq(<[^>]*>)?::eq$|PartialEq<&B> for &A>::eq$"):
            vals = tuple(Sg.val(a) for a in t["args"])
            if g is not f_from:
                vals = tuple(outer_view(v, caps.get(g.id, [])) for v in vals)
            ev.append(vals)
    ctx.check(len(ev) >= 2, "LANG-FALLBACK", "from_tag comparisons", "%d string comparisons" % len(ev), "from_tag no longer compares tags", f_from.loc(), fn=f_from.name)
    whole = [e for e in ev if any(x in ("&p1", "p1", "&*p1", "«p1»") or x.endswith("p1") or x.endswith("«p1»") for x in e)]
    ctx.check(bool(whole), "LANG-FALLBACK", "sub-language compared with the whole tag", str(whole[:1]),
              "no comparison of a sub-language tag with the whole input tag: %s" % (ev,), f_from.loc(), fn=f_from.name)
