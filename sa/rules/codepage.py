"""C14: code-page identifier and encoding tables, ASCII gate, replacement constants."""
import json
import os
import re

from .. import cfg, tables
from ..lib import calls, cname, short
from ..sym import Sym

VERIF = os.path.dirname(os.path.dirname(os.path.dirname(os.path.abspath(__file__))))
CP = "internal::codepage::CodePage"


def _variant_of(desc):
    """('variant','std::option::Option','Some',[('expr','internal::codepage::CodePage::X{}')]) -> X"""
    if not desc or desc[0] != "variant" or desc[2] != "Some" or not desc[3]:
        return None
    d = desc[3][0]
    if d[0] == "expr":
        m = re.search(r"CodePage::(\w+)\{\}$", d[1])
        if m:
            return m.group(1)
        if "Default>::default" in d[1]:
            return "<default>"
    if d[0] == "variant":
        return d[2]
    return None


def run(ctx):
    prog = ctx.prog
    with open(os.path.join(VERIF, "tables", "codepage_ref.json")) as f:
        ref = json.load(f)
    f_id = prog.fn("msi::internal::codepage::CodePage::id")
    f_from = prog.fn("msi::internal::codepage::CodePage::from_id")
    f_enc = prog.fn("msi::internal::codepage::CodePage::encoding")
    variants = tables.enum_variants(prog, "msi", CP)
    if not variants:
        ctx.anchor_missing("TABLE-CP-ID", "enum CodePage")
        return
    names = list(variants.values())
    ctx.rule("TABLE-CP-ID", "from_id(id(v)) == Some(v) for every CodePage variant, id(from_id(n)) == n for every non-zero arm of "
                            "from_id, 0 maps to the default page, and each variant carries the Windows identifier of the reference table")
    id_tab = tables.enum_table(prog, f_id, CP)
    from_tab, from_discr = tables.switch_table(prog, f_from)
    if from_tab:
        ctx.check(from_discr == "p1", "TABLE-CP-ID", "from_id matches on the identifier itself", "", "from_id looks up %s instead of the identifier it was given: identifiers that differ "
                  "from a known one only outside that expression are accepted, so lookup and reverse lookup are no longer inverse" % from_discr, f_from.loc(), fn=f_from.name,
                  key="TABLE-CP-ID|discr")
    id_discr = tables.switch_table(prog, f_id)[1]
    ctx.check(id_discr in ("discr(*p1)", "discr(p1)"), "TABLE-CP-ID", "id matches on the variant itself", "", "id() matches on %s" % id_discr, f_id.loc(), fn=f_id.name, key="TABLE-CP-ID|id-discr")
    if not id_tab or not from_tab:
        ctx.anchor_missing("TABLE-CP-ID", "match tables of CodePage::id / from_id")
        return
    ctx.floor("TABLE-CP-ID", "CodePage variants", len(names), 26)
    inv = {}
    for n, d in from_tab.items():
        if n == "otherwise":
            ctx.check(d is not None and d[0] == "variant" and d[2] == "None", "TABLE-CP-ID", "from_id(<unknown>)",
                      "unknown identifiers map to None", "unknown identifiers do not map to None: %s" % (d,), f_from.loc(), fn=f_from.name)
            continue
        inv[n] = _variant_of(d)
    for v in names:
        d = id_tab.get(v)
        ok = d is not None and d[0] == "int"
        idn = d[1] if ok else None
        back = inv.get(idn)
        ctx.check(ok and back == v, "TABLE-CP-ID", "from_id(id(%s))" % v, "id %s maps back to %s" % (idn, back),
                  "id(%s) = %s but from_id(%s) = %s" % (v, idn, idn, back), f_id.loc(), fn=f_id.name)
        want = ref["ids"].get(v)
        ctx.check(want is None or idn == want, "TABLE-CP-ID", "id(%s) vs reference" % v, "= %s" % idn,
                  "id(%s) = %s, Windows identifier is %s" % (v, idn, want), f_id.loc(), fn=f_id.name)
    for n, v in sorted(inv.items()):
        if n == 0:
            ctx.check(v == "<default>" or v == "Utf8", "TABLE-CP-ID", "from_id(0)", "maps to the default page",
                      "from_id(0) maps to %s, not the default page" % v, f_from.loc(), fn=f_from.name)
            continue
        d = id_tab.get(v)
        ctx.check(d is not None and d[0] == "int" and d[1] == n, "TABLE-CP-ID", "id(from_id(%d))" % n, "= %d" % n,
                  "from_id(%d) = %s but id(%s) = %s" % (n, v, v, d and d[1]), f_from.loc(), fn=f_from.name)
    ctx.floor("TABLE-CP-ID", "arms of from_id", len(inv), 27)

    ctx.rule("TABLE-CP-ENC", "CodePage::encoding maps each variant to the encoding_rs static that implements the Windows code page "
                             "with that variant's identifier (reference: tables/codepage_ref.json)")
    enc_tab = tables.enum_table(prog, f_enc, CP)
    if not enc_tab:
        ctx.anchor_missing("TABLE-CP-ENC", "match table of CodePage::encoding")
        return
    n_enc = 0
    for v in names:
        d = enc_tab.get(v)
        idd = id_tab.get(v)
        idn = idd[1] if idd and idd[0] == "int" else ref["ids"].get(v)
        if v == "UsAscii":
            continue
        allowed = ref["encodings"].get(str(idn))
        got = None
        if d and d[0] == "static":
            got = d[1].rsplit("::", 1)[-1]
            got = re.sub(r"_INIT$", "", got)
        n_enc += 1
        ctx.check(allowed is not None and got in allowed, "TABLE-CP-ENC", "encoding(%s)" % v, "code page %s -> %s" % (idn, got),
                  "code page %s (%s) is wired to encoding_rs::%s, expected one of %s" % (idn, v, got, allowed),
                  f_enc.loc(), fn=f_enc.name, key="TABLE-CP-ENC|%s" % v)
    ctx.floor("TABLE-CP-ENC", "variants with an encoding", n_enc, 25)

    # GATE-ASCII ---------------------------------------------------------------
    ctx.rule("GATE-ASCII", "every call of CodePage::encoding() is dominated by the false edge of `self == UsAscii`, so its unreachable!() arm is dead")
    n = 0
    for f in prog.fns.values():
        if f.crate != "msi":
            continue
        cs = calls(prog, f, r"^msi::internal::codepage::CodePage::encoding$")
        if not cs:
            continue
        S = Sym(prog, f)
        for b, t in cs:
            n += 1
            facts = S.bool_facts_at(b)
            ok = any(truth is False and "PartialEq>::eq(" in e and "UsAscii" in e for (e, truth, g) in facts) or \
                any(truth is True and "PartialEq>::ne(" in e and "UsAscii" in e for (e, truth, g) in facts)
            if not ok:
                # `match *self { CodePage::UsAscii => .., _ => self.encoding() .. }`: the call sits on an edge that excludes the UsAscii discriminant
                vs_ = {v["name"]: v["idx"] for v in prog.adts["msi::internal::codepage::CodePage"]["variants"]}
                ua = vs_.get("UsAscii")
                for (e, truth, g) in facts:
                    if re.fullmatch(r"discr\(\*+p1\)", e) and not isinstance(truth, bool):
                        if (truth[0] == "notin" and ua in truth[1]) or (truth[0] == "!=" and truth[1] == ua) or (truth[0] == "==" and truth[1] != ua) or (truth[0] == "in" and ua not in truth[1]):
                            ok = True
            ctx.check(ok, "GATE-ASCII", "%s calls encoding()" % short(f.name), "dominated by self != UsAscii",
                      "call of encoding() is not dominated by a `self == UsAscii` test; UsAscii reaches unreachable!()",
                      f.loc(t["sp"]), fn=f.name)
    ctx.floor("GATE-ASCII", "call sites of encoding()", n, 2)

    # REPL ------------------------------------------------------------------------
    ctx.rule("REPL", "the only constant byte pushed by CodePage::encode / ascii_encode is 0x3F ('?'); in encode, `total_read += read` "
                     "dominates the match on the encoder result inside the loop and the loop is left only through the first "
                     "(InputEmpty) arm")
    n_push = 0
    for fname in ("msi::internal::codepage::CodePage::encode", "msi::internal::codepage::ascii_encode"):
        f = prog.fn(fname)
        for g in prog.unit(f):
            for b, t in calls(prog, g, r"Vec::<T, A>::push$"):
                a = t["args"][1]
                if a.get("k") == "const" and "int" in a:
                    n_push += 1
                    ctx.check(a["int"] == 0x3F, "REPL", "%s pushes constant" % short(fname), "0x3F", "pushes 0x%02X, not '?'" % a["int"],
                              g.loc(t["sp"]), fn=fname)
            if g.kind == "Closure" and g.locals[0] == "u8":
                # a mapping closure char -> u8: its constant results are the replacement byte
                for bl in g.blocks:
                    for st in bl["stmts"]:
                        o = st["rhs"].get("ops", [{}])[0] if st["rhs"]["rv"] == "use" else {}
                        if st["lhs"]["l"] == 0 and not st["lhs"]["p"] and o.get("k") == "const" and "int" in o:
                            n_push += 1
                            ctx.check(o["int"] == 0x3F, "REPL", "%s yields constant" % short(fname), "0x3F", "yields 0x%02X, not '?'" % o["int"], g.loc(st["sp"]), fn=fname)
    ctx.floor("REPL", "constant replacement bytes", n_push, 2)
    # ascii_encode: one output byte per CHARACTER -----------------------------------------------------------------
    f = prog.fn("msi::internal::codepage::ascii_encode")
    unit = prog.unit(f)
    chars = calls(prog, f, r"<impl str>::chars$|<impl str>::char_indices$")
    per_char = False
    why = "ascii_encode does not iterate over the characters of its input (str::chars): one output byte per character cannot be established"
    if chars:
        maps = [t for b, t in calls(prog, f, r"Iterator::map$")]
        pushes = calls(prog, f, r"Vec::<T, A>::push$")
        loops_ = cfg.natural_loops(f)
        if pushes and loops_:
            pb = {b for b, t in pushes}
            ok_all = True
            for h, body in loops_.items():
                # every cycle through the header passes a push, and no path inside one iteration passes two pushes
                from .loops import cycle_without
                if cycle_without(f, h, body, pb):
                    ok_all = False
                    why = "an iteration of ascii_encode's loop can complete without emitting a byte: that character is dropped from the output"
                for p1_ in pb:
                    succs = f.succs()
                    seen, st_ = set(), [x for x in succs[p1_] if x in body and x != h]
                    while st_:
                        x = st_.pop()
                        if x in seen or x == h:
                            continue
                        seen.add(x)
                        st_.extend(y for y in succs[x] if y in body)
                    if seen & pb:
                        ok_all = False
                        why = "an iteration of ascii_encode's loop can emit two bytes for one character"
            per_char = ok_all
        elif maps and any(g.kind == "Closure" and g.locals[0] == "u8" for g in unit):
            per_char = True  # chars().map(char -> u8).collect(): one byte per character by construction
        else:
            why = "ascii_encode iterates characters but neither pushes one byte per iteration nor maps each character to one byte"
    ctx.check(per_char, "REPL", "ascii_encode emits one byte per character", "", why, f.loc(), fn=f.name, key="REPL|ascii-per-char")
    # ascii_decode: one character per BYTE (the byte itself when ASCII, U+FFFD otherwise) -----------------------------------
    f = prog.fn("msi::internal::codepage::ascii_decode")
    unit = prog.unit(f)
    per_byte, whyd = False, "ascii_decode neither pushes one character per iteration over the bytes nor maps each byte to one character"
    its = calls(prog, f, r"<impl \[T\]>::iter$|IntoIterator>?::into_iter$")
    pushes = calls(prog, f, r"(Vec::<T, A>|String)::push$")
    loops_ = cfg.natural_loops(f)
    if pushes and loops_:
        from .loops import cycle_without
        pb = {b for b, t in pushes}
        per_byte = True
        for h, body in loops_.items():
            if cycle_without(f, h, body, pb):
                per_byte, whyd = False, "an iteration of ascii_decode's loop can complete without emitting a character: that byte is dropped from the text"
            succs = f.succs()
            for p1_ in pb & body:
                seen, st_ = set(), [x for x in succs[p1_] if x in body and x != h]
                while st_:
                    x = st_.pop()
                    if x in seen or x == h:
                        continue
                    seen.add(x)
                    st_.extend(y for y in succs[x] if y in body)
                if seen & pb:
                    per_byte, whyd = False, "an iteration of ascii_decode's loop can emit two characters for one byte"
    elif calls(prog, f, r"Iterator::map$") and any(g.kind == "Closure" and g.locals[0] == "char" for g in unit):
        per_byte = True
    rv_ = [cname(prog, t).rsplit("::", 1)[-1] for g_ in unit + prog.unit(prog.fn("msi::internal::codepage::ascii_encode")) for b, t in g_.calls()
           if re.search(r"Iterator::rev$|<impl \[T\]>::reverse$|DoubleEndedIterator::rev$", t.get("callee") or "")]
    ctx.check(not rv_, "REPL", "ASCII codec keeps the order of the input", "", "ascii_encode / ascii_decode reverse their sequence (%s)" % rv_, f.loc(), fn=f.name, key="REPL|ascii-order")
    consts = [o["int"] for g in unit for bl in g.blocks for st in bl["stmts"] for o in st["rhs"].get("ops", []) if o.get("k") == "const" and o.get("ty") == "char" and "int" in o] + \
        [a["int"] for g in unit for b, t in g.calls() for a in t["args"] if a.get("k") == "const" and a.get("ty") == "char" and "int" in a]
    ctx.check(per_byte and set(consts) <= {0xFFFD} and bool(consts), "REPL", "ascii_decode emits one character per byte (U+FFFD for non-ASCII)", "", whyd if not per_byte else
              "ascii_decode substitutes %s, not U+FFFD" % [hex(c) for c in consts], f.loc(), fn=f.name, key="REPL|ascii-per-byte")
    # the ASCII range is exactly 0..=0x7F on both sides: a unit passes through exactly when it is <= 0x7F, and is replaced exactly when it is >= 0x80
    from ..lib import interval_of, lifted_closures, ret_locals
    for fname, unit_ty in (("msi::internal::codepage::ascii_decode", "char"), ("msi::internal::codepage::ascii_encode", "u8")):
        f = prog.fn(fname)
        Sf = Sym(prog, f)
        views = [(f, Sf.val, Sf.bool_facts_at)] + [(L.fn, L.val, L.facts_at) for L in lifted_closures(prog, f, Sf)]
        passes, repl = [], []
        for (g, val, fat) in views:
            for bl in g.blocks:
                if bl["cleanup"]:
                    continue
                em = []
                t = bl["term"]
                if t["t"] == "call" and re.search(r"(Vec::<T, A>|String)::push$", cname(prog, t)):
                    em.append(val(t["args"][1]))
                if g.kind == "Closure" and g.locals[0] == unit_ty:
                    rl = ret_locals(g)
                    for st in bl["stmts"]:
                        if st["lhs"]["l"] in rl and not st["lhs"]["p"] and st["rhs"]["rv"] in ("use", "cast"):
                            o = st["rhs"]["ops"][0]
                            if st["rhs"]["rv"] == "use" and o.get("pl") and not o["pl"]["p"] and o["pl"]["l"] in rl:
                                continue
                            v = val(o)
                            em.append("(%s as %s)" % (v, unit_ty) if st["rhs"]["rv"] == "cast" else v)
                    if t["t"] == "call" and t["dest"]["l"] in rl and not t["dest"]["p"] and re.search(r"convert::<impl std::convert::From<(u8|char)> for (char|u32)>::from$|convert::From::from$", cname(prog, t)):
                        em.append("(%s as %s)" % (val(t["args"][0]), unit_ty))
                for v in em:
                    m = re.fullmatch(r"\((.*) as (char|u8)\)", v)
                    if m:
                        passes.append((m.group(1), fat(bl["id"]), g, bl))
                    elif re.fullmatch(r"c:\d+", v):
                        repl.append((fat(bl["id"]), g, bl))
        ok, why = bool(passes), "%s has no site that passes a unit through unchanged" % short(fname)
        for (var, fs, g, bl) in passes:
            lo, hi, ex = interval_of(fs, var)
            if hi != 127 or (lo or 0) > 0 or any(0 <= x <= 127 for x in ex):
                ok, why = False, "%s passes a unit through unchanged when it is in %s..%s%s; the ASCII range is exactly 0..=0x7F (U+007F is ASCII, 0x80 is not)" % (
                    short(fname), lo or 0, "=%d" % hi if hi is not None else "", " except %s" % sorted(ex) if ex else "")
        var0 = passes[0][0] if passes else None
        for (fs, g, bl) in repl:
            lo, hi, ex = interval_of(fs, var0) if var0 else (None, None, set())
            lo = lo or 0
            while lo in ex:
                lo += 1
            if lo != 128 or hi is not None:
                ok, why = False, "%s substitutes the replacement for units from %d%s; exactly the units >= 0x80 are outside ASCII" % (short(fname), lo, "..=%d" % hi if hi is not None else "")
        ctx.check(ok and bool(repl), "REPL", "%s: the pass-through range is exactly 0..=0x7F" % short(fname), "%d pass-through, %d replacement sites" % (len(passes), len(repl)),
                  why if not ok else "%s has no replacement site" % short(fname), f.loc(), fn=f.name, key="REPL|ascii-range|%s" % short(fname))
    f = prog.fn("msi::internal::codepage::CodePage::encode")
    S = Sym(prog, f)
    loops = cfg.natural_loops(f)
    enc_calls = calls(prog, f, r"encode_from_utf8_without_replacement$")
    if not loops or not enc_calls:
        ctx.anchor_missing("REPL", "encoder loop in CodePage::encode")
        return
    eb = enc_calls[0][0]
    body = None
    for h, blks in loops.items():
        if eb in blks:
            body = blks
    if body is None:
        ctx.violation("REPL", "encode loop", "the encoder call is not inside a loop: input longer than the 1 KiB buffer is truncated",
                      f.loc(enc_calls[0][1]["sp"]), fn=f.name)
        return
    dom = cfg.dominators(f)
    sw = None
    for b in sorted(body):
        t = f.blocks[b]["term"]
        if t["t"] == "switch" and S.val(t["discr"]).startswith("discr(") and "encode_from_utf8" in S.val(t["discr"]):
            sw = b
    adds = []
    for b in sorted(body):
        t = f.blocks[b]["term"]
        if t["t"] == "assert" and t["msg"] == "Overflow:Add":
            vals = [S.val(o) for o in t["mops"]]
            if any("encode_from_utf8_without_replacement.1" in v for v in vals):
                adds.append(b)
    if not adds:
        # `remaining = &remaining[read..]`: the re-slicing by `read` plays the part of `total_read += read`
        for b, t in f.calls():
            if b in body and "Index" in (t.get("callee") or "") and any(re.search(r"RangeFrom\{.*encode_from_utf8_without_replacement\.1\}", S.val(a)) for a in t["args"]):
                adds.append(b)
    ctx.check(bool(adds) and sw is not None and all(a in dom.get(sw, ()) for a in adds[:1]), "REPL", "total_read += read before match",
              "advance dominates the result match", "no `total_read += read` dominating the match on the encoder result "
              "(unmappable characters would be re-read forever or skipped)", f.loc(), fn=f.name)
    if sw is not None:
        t = f.blocks[sw]["term"]
        # per variant of the encoder result, on the body specialised to that variant (one match, or several `if let`s on the same result):
        # does control come back to the encoder call, or leave the loop?
        from ..spec import specialise
        dexpr = S.val(t["discr"])
        first = min((b for b in body if f.blocks[b]["term"]["t"] == "switch" and S.val(f.blocks[b]["term"]["discr"]) == dexpr), key=lambda b: len(dom[b]))
        exits = []
        for v in (0, 1, 2):
            g_ = specialise(prog, f, dexpr, v)
            r = cfg.reachable(g_, first)
            if eb not in r:
                exits.append(v)
        ctx.check(exits == [0], "REPL", "loop exit arms", "only the InputEmpty arm leaves the loop",
                  "arms %s of the encoder-result match leave the loop (expected only arm 0 = InputEmpty)" % exits,
                  f.loc(t["sp"]), fn=f.name)
    else:
        ctx.anchor_missing("REPL", "match on the encoder result")


def flow_rules(ctx):
    """every result of decode/encode comes from the code page's own codec, over the whole input"""
    from ..lib import call_of, symcalls
    prog = ctx.prog
    R = "CODEC-PATH"
    ctx.rule(R, "CodePage::decode returns, on every path, either ascii_decode(bytes) (US-ASCII) or the result of the page's encoding_rs decoder applied to the whole input "
                "WITHOUT BOM sniffing (Encoding::decode / decode_with_bom_removal switch encoding or drop U+FEFF on a leading byte-order mark); CodePage::encode "
                "returns either ascii_encode or the accumulated output of the encoder loop; every chunk appended is exactly buffer[..written], appended on every path "
                "of an iteration")
    f = prog.fn("msi::internal::codepage::CodePage::decode")
    S = Sym(prog, f)
    cs = symcalls(prog, f, S)
    codec = [c for c in cs if c[1].endswith("::ascii_decode") or re.search(r"encoding_rs::Encoding::decode\w*$", c[1])]
    ok = bool(codec) and not (set(f.returns()) & cfg.reachable(f, 0, avoid={c[0] for c in codec}))
    ctx.check(ok, R, "decode: every path goes through the page's decoder", "", "CodePage::decode can return without passing through ascii_decode or the code page's encoding_rs decoder "
              "(a shortcut that bypasses the code page)", f.loc(), fn=f.name, key=R + "|decode-path")
    whole = all(("p2" in c[2][-1]) for c in codec)
    ctx.check(whole, R, "decode: the decoder gets the whole input", "", "decoder input is %s" % [c[2][-1] for c in codec], f.loc(), fn=f.name)
    bom = [c for c in cs if re.search(r"encoding_rs::Encoding::(decode|decode_with_bom_removal)$", c[1])]
    ctx.check(not bom, R, "decode: no BOM sniffing", "uses decode_without_bom_handling", "CodePage::decode calls %s, which sniffs a byte-order mark: bytes FF FE / FE FF / EF BB BF at the start switch the "
              "decoder to UTF-16/UTF-8 (e.g. Windows1252.decode(b\"\\xff\\xfeA\\0\") == \"A\") and a leading U+FEFF is dropped under UTF-8, so encode(decode) is not the identity" % [short(c[1]) for c in bom],
              f.loc(bom[0][3]["sp"]) if bom else f.loc(), fn=f.name, key=R + "|bom")
    # the decoder's output is returned as it is: nothing trims, replaces, splits or filters the decoded text (a stored string may legitimately end in U+0000 or spaces)
    from ..lib import unit_calls as _uc
    post = sorted({n.rsplit("::", 1)[-1] for b, n, a, t, L in _uc(prog, f, S)
                   if re.search(r"::(trim\w*|strip_\w+|replace\w*|truncate|pop|retain|remove|drain|split\w*|filter|take_while|skip_while|to_lowercase|to_uppercase|to_ascii_\w+|chars|char_indices)$", n)})
    ctx.check(not post, R, "decode: the decoded text is returned unmodified", "", "CodePage::decode post-processes the decoder's output with %s: characters the bytes do encode are lost or changed "
              "(e.g. trailing U+0000), so decode is no longer the inverse of encode" % post, f.loc(), fn=f.name, key=R + "|decode-post")
    others = [c for c in cs if re.search(r"(from_utf8\w*|from_utf8_lossy|String::from_utf16\w*)$", c[1])]
    ctx.check(not others, R, "decode: no second decoder", "", "CodePage::decode also decodes with %s" % [short(c[1]) for c in others], f.loc(), fn=f.name)
    g = prog.fn("msi::internal::codepage::CodePage::encode")
    Sg = Sym(prog, g)
    gs = symcalls(prog, g, Sg)
    enc = [c for c in gs if c[1].endswith("encode_from_utf8_without_replacement")]
    asc = [c for c in gs if c[1].endswith("::ascii_encode")]
    ok = len(enc) == 1 and len(asc) == 1 and not (set(g.returns()) & cfg.reachable(g, 0, avoid={enc[0][0], asc[0][0]}))
    ctx.check(ok, R, "encode: every path goes through the page's encoder", "", "CodePage::encode can return without ascii_encode or the encoder loop", g.loc(), fn=g.name)
    if len(enc) == 1:
        ext = [c for c in gs if c[1].endswith("Vec::<T, A>::extend_from_slice")]
        good = []
        for c in ext:
            cn, ca = call_of(Sg, c[2][1])
            if cn and "Index" in cn and len(ca) == 2 and re.search(r"RangeTo\{call@%d:.*\.2\}" % enc[0][0], ca[1]):
                good.append(c)
        ctx.check(bool(ext) and len(good) == len(ext), R, "encode: every appended chunk is buffer[..written]", "%d append site(s)" % len(ext),
                  "CodePage::encode appends something other than buffer[..written] (%d of %d append sites): stale or unwritten buffer bytes end up in the output" % (len(ext) - len(good), len(ext)),
                  g.loc(), fn=g.name, key=R + "|chunk")
        loops = cfg.natural_loops(g)
        body = [bl for h, bl in loops.items() if enc[0][0] in bl]
        if body and good:
            body = min(body, key=len)
            hdr = [h for h, bl in loops.items() if bl == body][0]
            back = {b for b in body if hdr in g.succs()[b]}
            exits = {s2 for b in body for s2 in g.succs()[b] if s2 not in body}
            reach = cfg.reachable(g, enc[0][3]["succ"][0], avoid={c[0] for c in good})
            ctx.check(not (reach & (back | exits)), R, "encode: the chunk is appended on every path of an iteration", "", "an iteration of the encoder loop can finish without appending its chunk",
                      g.loc(), fn=g.name, key=R + "|chunk-every-path")
    # the encoder is created from the page's own encoding and fed the rest of the input
    ne = [c for c in gs if c[1].endswith("Encoding::new_encoder")]
    nn, na = call_of(Sg, ne[0][2][0]) if len(ne) == 1 else (None, [])
    ctx.check(len(ne) == 1 and bool(nn) and nn.endswith("CodePage::encoding") and na == ["&*p1"], R, "encode: encoder of the page's own encoding", "", "encoder created from %s" % [c[2] for c in ne], g.loc(), fn=g.name)
    if len(enc) == 1:
        cn, ca = call_of(Sg, enc[0][2][1])
        rest_ok = bool(cn) and "Index" in cn and "RangeFrom{" in ca[1]
        if not rest_ok:
            # `remaining = &remaining[read..]`: the input is a local that starts as the whole string and is re-sliced from `read` after every call
            mloc = re.fullmatch(r"[&*]*_(\d+)", enc[0][2][1])
            if mloc:
                L_ = int(mloc.group(1))
                vals = [Sg._def_val(d_, L_, 0) for d_ in Sg.du.whole_defs(L_)]
                init = [v for v in vals if re.fullmatch(r"[&*]*p2", v)]
                adv = []
                for v in vals:
                    cn2, ca2 = call_of(Sg, v.lstrip("&*"))
                    if cn2 and "Index" in cn2 and len(ca2) == 2 and re.search(r"RangeFrom\{call@%d:.*\.1\}" % enc[0][0], ca2[1]) and re.fullmatch(r"[&*]*_%d" % L_, ca2[0]):
                        adv.append(v)
                rest_ok = len(init) == 1 and len(adv) == 1 and len(vals) == 2
        ctx.check(rest_ok and enc[0][2][3] == "c:1", R, "encode: feeds the unread rest of the string, last=true", "", "encoder input %s / last flag %s" % (ca, enc[0][2][3]), g.loc(), fn=g.name)
