"""CODEC: reader/writer symmetry of the cell, reference and pool codecs (C01, C02, C08)."""
import re

from .. import cfg, tables
from ..lib import calls, cname, error_sites, has_fact, short, symcalls
from ..sym import Sym

COL = "msi::internal::column::"
SP = "msi::internal::stringpool::"

WIDTH = {"u8": 1, "i8": 1, "u16": 2, "i16": 2, "u32": 4, "i32": 4, "u64": 8, "i64": 8}


def io_width(t):
    n = t.get("callee") or ""
    m = re.match(r"byteorder::(Read|Write)BytesExt::(?:read|write)_([ui]\d+)$", n)
    if m:
        return WIDTH.get(m.group(2)) or int(m.group(2)[1:]) // 8
    return None


def paths_bytes(prog, f, fixed, flag_map=None, depth=0):
    """set of byte totals over all success paths of codec function f, under `fixed` = {expr: value} assignments for
    switch discriminants (e.g. {'discr(*p1)': 2, 'p3': 1}). Calls to StringRef::read/write are expanded."""
    S = Sym(prog, f)
    bad = {b for (b, t, k, m) in error_sites(prog, f)} | {b for b, t in f.calls() if (t.get("callee") or "").endswith("from_residual")}
    bad |= {b for b, t in f.calls() if (t.get("callee") or "").startswith(("core::panicking", "std::rt::panic"))}
    totals = set()
    rets = set(f.returns())

    def width_at(b):
        t = f.blocks[b]["term"]
        if t["t"] != "call":
            return {0}
        w = io_width(t)
        if w is not None:
            return {w}
        g = prog.callee_fn(t)
        if g is not None and g.crate == "msi" and depth < 2 and (g.name in (SP + "StringRef::read", SP + "StringRef::write") or any(
                io_width(tt) for bb, tt in g.calls())):
            # map the callee's flag parameter
            fl = S.val(t["args"][-1])
            sub_fixed = {}
            if fl in fixed:
                sub_fixed["p%d" % g.argc] = fixed[fl]
            elif fl in ("c:0", "c:1"):
                sub_fixed["p%d" % g.argc] = int(fl[2:])
            return paths_bytes(prog, g, sub_fixed, depth=depth + 1) or {None}
        if (t.get("callee") or "") in ("std::io::Write::write_all", "std::io::Read::read_exact"):
            return {None}
        return {0}

    def walk(b, acc, seen):
        if b in bad or b in seen or len(seen) > 200:
            return
        if b in rets:
            totals.update(acc)
            return
        t = f.blocks[b]["term"]
        ws = width_at(b)
        acc2 = {(a + w) if (a is not None and w is not None) else None for a in acc for w in ws}
        if t["t"] == "switch":
            e = S.val(t["discr"])
            ee = e
            while ee.startswith("(Not ") and ee.endswith(")"):
                ee = ee[5:-1]
            neg = (e.count("(Not ") % 2) == 1
            targets = []
            if ee in fixed:
                val = fixed[ee]
                if neg:
                    val = 0 if val else 1
                tgt = None
                for v, tg in t["cases"]:
                    if v == val:
                        tgt = tg
                targets = [tgt if tgt is not None else t["otherwise"]]
            else:
                targets = f.succs()[b]
            for tg in targets:
                walk(tg, acc2, seen | {b})
            return
        for s in f.succs()[b]:
            walk(s, acc2, seen | {b})

    walk(0, {0}, frozenset())
    return totals


def cell_codec(ctx):
    prog = ctx.prog
    R = "CODEC-1"
    ctx.rule(R, "for each ColumnType variant and each value of long_string_refs: bytes consumed on every success path of read_value = bytes produced on "
                "every success path of write_value = ColumnType::width (paths enumerated with the variant discriminant and the flag fixed; "
                "StringRef::read/write expanded)")
    fr = prog.fn(COL + "ColumnType::read_value")
    fw = prog.fn(COL + "ColumnType::write_value")
    fwd = prog.fn(COL + "ColumnType::width")
    vs = tables.enum_variants(prog, "msi", "internal::column::ColumnType")
    want = {"Int16": (2, 2), "Int32": (4, 4), "Str": (2, 3)}
    n = 0
    for d, name in sorted(vs.items()):
        for flag in (0, 1):
            n += 1
            r = paths_bytes(prog, fr, {"discr(*p1)": d, "p3": flag})
            w = paths_bytes(prog, fw, {"discr(*p1)": d, "p4": flag})
            # width(): return constant under the same assignments
            S = Sym(prog, fwd)
            wd = set()
            for bl in fwd.blocks:
                if bl["cleanup"]:
                    continue
                for s in bl["stmts"]:
                    if s["lhs"]["l"] == 0 and s["rhs"]["rv"] == "use" and "int" in s["rhs"]["ops"][0]:
                        ok = True
                        for (e, tr, g) in S.bool_facts_at(bl["id"]):
                            if e == "discr(*p1)" and tr != ("==", d):
                                ok = False
                            if e == "p2" and tr is not bool(flag):
                                ok = False
                        if ok:
                            wd.add(s["rhs"]["ops"][0]["int"])
            ref = want.get(name, (None, None))[flag]
            ok = r == w == wd and len(r) == 1 and (ref is None or r == {ref})
            ctx.check(ok, R, "%s, long_string_refs=%s" % (name, bool(flag)), "read %s = written %s = width %s" % (sorted(r, key=str), sorted(w, key=str), sorted(wd)),
                      "cell width disagreement for %s with long_string_refs=%s: read_value consumes %s, write_value produces %s, width() says %s (format: %s)" % (
                          name, bool(flag), sorted(r, key=str), sorted(w, key=str), sorted(wd), ref), fr.loc(), fn=fr.name, key="%s|%s|%d" % (R, name, flag))
    ctx.floor(R, "variant x flag combinations", n, 6)

    R = "CODEC-2"
    ctx.rule(R, "integers are stored offset-binary: reader and writer XOR with the same constant per width (-0x8000 for 16 bit, -0x8000_0000 for 32 bit); "
                "stored 0 <-> ValueRef::Null in both directions; the 16-bit reader widens after the XOR and the writer narrows before it")
    Sr, Sw = Sym(prog, fr), Sym(prog, fw)

    def xors(f, S):
        out = {}
        for bl in f.blocks:
            if bl["cleanup"]:
                continue
            for s in bl["stmts"]:
                r = s["rhs"]
                if r["rv"] == "bin" and r["op"] == "BitXor":
                    d = [tr for (e, tr, g) in S.bool_facts_at(bl["id"]) if e == "discr(*p1)"]
                    c = [o["int"] for o in r["ops"] if o.get("k") == "const" and "int" in o]
                    ty = [o.get("ty") for o in r["ops"] if o.get("k") == "const"]
                    other = [S.val(o) for o in r["ops"] if o.get("k") != "const"]
                    if d and c:
                        out[d[0][1]] = (c[0], ty[0], other[0] if other else "")
        return out
    xr, xw = xors(fr, Sr), xors(fw, Sw)
    ref = {"Int16": (-0x8000, "i16"), "Int32": (-0x80000000, "i32")}
    for d, name in sorted(vs.items()):
        if name not in ref:
            continue
        a, b = xr.get(d), xw.get(d)
        ok = a is not None and b is not None and a[:2] == b[:2] == ref[name]
        ctx.check(ok, R, "%s XOR constant" % name, "reader %s writer %s" % (a and a[:2], b and b[:2]),
                  "offset-binary constants for %s: reader %s, writer %s, format %s" % (name, a and a[:2], b and b[:2], ref[name]), fr.loc(), fn=fr.name, key="%s|xor|%s" % (R, name))
    # zero <-> Null
    for d, name in sorted(vs.items()):
        if name not in ref:
            continue
        # reader: in the arm, a switch on the read value has case 0 -> ValueRef::Null
        found = False
        for bl in fr.blocks:
            if bl["cleanup"]:
                continue
            t = bl["term"]
            if t["t"] == "switch" and ("==", d) in [tr for (e, tr, g) in Sr.bool_facts_at(bl["id"]) if e == "discr(*p1)"] and "Continue.0" in Sr.val(t["discr"]):
                for v, tg in t["cases"]:
                    if v == 0:
                        res, _ = tables.arm_result(prog, fr, Sr, tg)
                        found = res is not None and "ValueRef" in str(res) and "Null" in str(res)
        if not found:
            # `if number == 0 { Ok(ValueRef::Null) } else { .. }`: a Null built where the read value is known to be 0
            for bl in fr.blocks:
                if bl["cleanup"]:
                    continue
                if not any(st["rhs"]["rv"] == "agg" and (st["rhs"].get("adt") or "").endswith("ValueRef") and st["rhs"].get("variant") == "Null" for st in bl["stmts"]):
                    continue
                fs = Sr.bool_facts_at(bl["id"])
                if ("==", d) not in [tr for (e, tr, g) in fs if e == "discr(*p1)"]:
                    continue
                for (e, tr, g) in fs:
                    if "Continue.0" in e and (tr == ("==", 0) or (e.endswith(" Eq c:0)") and tr is True) or (e.endswith(" Ne c:0)") and tr is False)):
                        found = True
        ctx.check(found, R, "%s: stored 0 reads as Null" % name, "", "read_value(%s): a stored 0 is not mapped to ValueRef::Null" % name, fr.loc(), fn=fr.name, key="%s|null-r|%s" % (R, name))
        # writer: under ValueRef::Null the written constant is 0
        okw = False
        for b, n_, args, t in symcalls(prog, fw, Sw):
            if io_width(t) and ("==", d) in [tr for (e, tr, g) in Sw.bool_facts_at(b) if e == "discr(*p1)"]:
                vr = [tr for (e, tr, g) in Sw.bool_facts_at(b) if e == "discr(p3)"]
                if vr and vr[0] == ("==", 0):
                    okw = args[1] == "c:0"
        ctx.check(okw, R, "%s: Null is written as 0" % name, "", "write_value(%s): ValueRef::Null is not written as 0" % name, fw.loc(), fn=fw.name, key="%s|null-w|%s" % (R, name))
    a, b = xr.get([d for d, nme in vs.items() if nme == "Int16"][0]), xw.get([d for d, nme in vs.items() if nme == "Int16"][0])
    ctx.check(bool(a and b and "as i16" in b[2]), R, "Int16 writer narrows before the XOR", b and b[2], "write_value(Int16) does not XOR the value narrowed to i16: %s" % (b and b[2]), fw.loc(), fn=fw.name)

    R = "CODEC-3"
    ctx.rule(R, "Table::read_rows and Table::write_rows both iterate columns in the outer loop and rows in the inner loop (column-major), and the value "
                "codec call sits in the inner loop")
    for fname, codec in (("msi::internal::table::Table::read_rows", COL + "ColumnType::read_value"), ("msi::internal::table::Table::write_rows", COL + "ColumnType::write_value")):
        f = prog.fn(fname)
        S = Sym(prog, f)
        loops = cfg.natural_loops(f)
        cc = [b for b, t in f.calls() if cname(prog, t) == codec]
        comb_kind = None
        if not cc:
            # the codec call sits in a closure driven by an iterator combinator (rows.iter_mut().try_for_each(|row| ..)): the combinator is the inner loop
            from ..lib import lifted_closures
            for L in lifted_closures(prog, f, S):
                if any(cname(prog, t) == codec for b, t in L.fn.calls()) and L.call_block is not None and L.param and L.param.startswith("elem("):
                    cc = [L.call_block]
                    recv = L.param
                    ty = " ".join(f.locals[a["pl"]["l"]] for a in f.blocks[L.call_block]["term"]["args"][:1] if a.get("pl"))
                    comb_kind = "rows" if "Vec<internal::value::ValueRef>" in ty or "rows" in recv or "p3" in recv else "?"
        if len(cc) != 1:
            ctx.violation(R, short(fname), "expected one call of %s, found %d" % (short(codec), len(cc)), f.loc(), fn=fname)
            continue
        enclosing = sorted([(len(blks), h) for h, blks in loops.items() if cc[0] in blks])
        kinds = [comb_kind] if comb_kind else []
        for sz, h in enclosing:
            # the iterator advanced at the loop header region: find the `next` call inside the loop that is not inside a smaller enclosing loop
            nxt = [(b, t) for b, t in f.calls() if b in loops[h] and (t.get("callee") or "").endswith("Iterator::next")]
            inner = [hh for s2, hh in enclosing if s2 < sz]
            nxt = [(b, t) for b, t in nxt if not any(b in loops[hh] for hh in inner)]
            desc = []
            for b, t in nxt:
                ty = f.locals[t["args"][0]["pl"]["l"]] if t["args"][0].get("pl") else ""
                w = t.get("resolved") or ""
                kind_ = "rows" if ("Vec<internal::value::ValueRef>" in (t.get("selfty") or "") or "Vec<internal::value::ValueRef>" in w or "Vec<internal::value::ValueRef>" in ty) else \
                    ("columns" if "Column" in (t.get("selfty") or "") + ty else "?")
                if kind_ == "?" and "ops::Range<" in ty + w:
                    # `for index in 0..self.columns.len()`: a loop over the column numbers
                    rv_ = S.val(t["args"][0])
                    if re.search(r"Range\{c:0,std::vec::Vec::<T, A>::len\(&\*?p1\.columns\)\}", rv_):
                        kind_ = "columns"
                desc.append(kind_)
            kinds.append(",".join(desc))
        ok = len(kinds) == 2 and "rows" in kinds[0] and "columns" in kinds[1]
        ctx.check(ok, R, short(fname), "inner loop over %s, outer loop over %s" % tuple(kinds[:2]) if len(kinds) >= 2 else str(kinds),
                  "%s is not column-major (codec call nested in loops over: %s, innermost first); the format stores all values of column 1, then column 2, ..." % (
                      short(fname), kinds), f.loc(), fn=fname, key="%s|%s" % (R, short(fname)))


def pool_codec(ctx):
    prog = ctx.prog
    R = "CODEC-5"
    ctx.rule(R, "StringRef::read shifts the third byte by the amount StringRef::write shifts it back (16) and masks agree; the pool header's "
                "LONG_STRING_REFS_BIT (0x8000_0000) is tested-and-cleared by read_from_pool and set by write_pool under long_string_refs; the "
                "long-string escape uses the same split in reader (hi << 16 | lo, when length == 0 && refcount > 0) and writer "
                "(0, len >> 16 when len > 0xffff; then len & 0xffff)")
    fr, fw = prog.fn(SP + "StringRef::read"), prog.fn(SP + "StringRef::write")
    Sr, Sw = Sym(prog, fr), Sym(prog, fw)

    def binops(f, S):
        out = []
        for bl in f.blocks:
            if bl["cleanup"]:
                continue
            for s in bl["stmts"]:
                r = s["rhs"]
                if r["rv"] == "bin" and not s["sp"].get("exp"):
                    out.append((r["op"], [S.val(o) for o in r["ops"]], bl["id"]))
        return out
    br, bw = binops(fr, Sr), binops(fw, Sw)
    shl = [o for o in br if o[0] == "Shl"]
    shr = [o for o in bw if o[0] == "Shr"]
    ok = len(shl) == 1 and len(shr) == 1 and shl[0][1][1] == shr[0][1][1] == "c:16"
    ctx.check(ok, R, "StringRef third-byte shift", "16 both ways", "StringRef::read shifts by %s, StringRef::write by %s" % ([o[1][1] for o in shl], [o[1][1] for o in shr]), fr.loc(), fn=fr.name)
    masks = sorted(o[1][1] for o in bw if o[0] == "BitAnd")
    okm = masks == ["c:255", "c:65535"]
    if not okm and not masks:
        # the same split by truncating casts: `number as u16` for the low word, `(number >> 16) as u8` for the third byte
        w16 = [Sw.val(t["args"][1]) for b, t in fw.calls() if (t.get("callee") or "").endswith("write_u16") and has_fact(Sw, b, r"^p3$", True)]
        w8 = [Sw.val(t["args"][1]) for b, t in fw.calls() if (t.get("callee") or "").endswith("write_u8")]
        okm = len(w16) == 1 and len(w8) == 1 and re.fullmatch(r"\((.*) as u16\)", w16[0]) is not None and re.fullmatch(r"\(\((.*) Shr c:16\) as u8\)", w8[0]) is not None and \
            re.fullmatch(r"\((.*) as u16\)", w16[0]).group(1) == re.fullmatch(r"\(\((.*) Shr c:16\) as u8\)", w8[0]).group(1)
    ctx.check(okm, R, "StringRef::write masks", str(masks), "StringRef::write masks with %s (expected 0xffff and 0xff, or the truncating casts `as u16` / `>> 16 as u8`)" % masks, fw.loc(), fn=fw.name)
    # zero reads as None: `if number == 0` or a `match` on the combined number with an arm for 0
    zero_arm = any(not bl["cleanup"] and bl["term"]["t"] == "switch" and any(v == 0 for (v, tg) in bl["term"]["cases"]) and
                   re.search(r"BitOr|read_u16", Sr.val(bl["term"]["discr"])) and not Sr.val(bl["term"]["discr"]).startswith("discr(") for bl in fr.blocks)
    ctx.check(any(o[0] == "BitOr" for o in br) and (zero_arm or any(o[0] in ("Eq", "Ne") and o[1][1] == "c:0" for o in br)), R, "StringRef::read combines and maps 0 to None", "",
              "StringRef::read does not OR the third byte in / map 0 to None", fr.loc(), fn=fr.name)
    # conditional third byte under the flag on both sides
    r3 = [(b, t) for b, t in fr.calls() if (t.get("callee") or "").endswith("read_u8")]
    w3 = [(b, t) for b, t in fw.calls() if (t.get("callee") or "").endswith("write_u8")]
    ok = len(r3) == 1 and len(w3) == 1 and has_fact(Sr, r3[0][0], r"^p2$", True) and has_fact(Sw, w3[0][0], r"^p3$", True)
    ctx.check(ok, R, "third byte only with long_string_refs", "", "the third reference byte is not conditioned on long_string_refs on both sides", fr.loc(), fn=fr.name)
    # short mode refuses wide references
    short_ref_bound(ctx, R)
    ref_zero_extended(ctx, R)

    bit = prog.const(SP + "LONG_STRING_REFS_BIT")["val"]
    ctx.check(bit == 0x80000000, R, "LONG_STRING_REFS_BIT", hex(bit), "LONG_STRING_REFS_BIT is %#x, the format uses bit 31" % bit)
    f = prog.fn(SP + "StringPoolBuilder::read_from_pool")
    S = Sym(prog, f)
    ops = binops(f, S)
    tested = [o for o in ops if o[0] == "BitAnd" and "c:%d" % bit in o[1]]
    cleared = [o for o in ops if o[0] == "BitAnd" and "(Not c:%d)" % bit in o[1]]
    ctx.check(len(tested) == 1 and len(cleared) == 1, R, "read_from_pool tests and clears the long-refs bit", "",
              "read_from_pool does not test-and-clear LONG_STRING_REFS_BIT in the header word (tests %d, clears %d)" % (len(tested), len(cleared)), f.loc(), fn=f.name)
    agg = [s for bl in f.blocks if not bl["cleanup"] for s in bl["stmts"] if s["rhs"]["rv"] == "agg" and (s["rhs"].get("adt") or "").endswith("StringPoolBuilder")]
    if agg:
        a = prog.adts["msi::internal::stringpool::StringPoolBuilder"]["variants"][0]["fields"]
        i = [x[0] for x in a].index("long_string_refs")
        v = S.val(agg[0]["rhs"]["ops"][i])
        ctx.check("BitAnd c:%d) Ne c:0)" % bit in v, R, "builder's long_string_refs comes from the header bit", v, "long_string_refs is computed as %s" % v, f.loc(), fn=f.name)
    esc_r = [o for o in ops if o[0] == "Shl" and o[1][1] == "c:16"]
    guard = [o for o in ops if o[0] == "Eq" and o[1][1] == "c:0"] and [o for o in ops if o[0] in ("Gt", "Ne") and o[1][1] == "c:0"]
    ctx.check(len(esc_r) == 1 and bool(guard), R, "reader's long-string escape", "(refcount << 16) | next word, under length == 0 && refcount > 0",
              "read_from_pool's long-string escape is not `length == 0 && refcount > 0 => (refcount << 16) | next`", f.loc(), fn=f.name)
    g = prog.fn(SP + "StringPool::write_pool")
    Sg = Sym(prog, g)
    gops = binops(g, Sg)
    wvals = [Sg.val(t["args"][1]) for b, t in g.calls() if (t.get("callee") or "").endswith("write_u16")]
    low_cast = [v for v in wvals if re.fullmatch(r"\(\(std::vec::Vec::<T, A>::len\(.*CodePage::encode.*\) as u32\) as u16\)", v)]
    ok = len([o for o in gops if o[0] == "Shr" and o[1][1] == "c:16"]) == 1 and (len([o for o in gops if o[0] == "BitAnd" and o[1][1] == "c:65535"]) == 1 or len(low_cast) == 1) and \
        len([o for o in gops if (o[0] == "Gt" and "65535" in o[1][1]) or (o[0] == "Lt" and "65535" in o[1][0]) or (o[0] == "Ge" and "65536" in o[1][1]) or (o[0] == "Le" and "65536" in o[1][0]) or
             (o[0] in ("Ne", "Gt") and "Shr c:16" in o[1][0] and o[1][1] == "c:0") or (o[0] == "Ne" and "Shr c:16" in o[1][1] and o[1][0] == "c:0")]) == 1
    ctx.check(ok, R, "writer's long-string escape", "len > 0xffff => 0, len >> 16; then len & 0xffff", "write_pool's long-string escape does not mirror the reader's split (>> 16 / & 0xffff / > 0xffff)", g.loc(), fn=g.name)
    # the escape marker is a ZERO length word (that is what the reader tests for), followed by the high half
    esc_w = [(b, args) for b, n, args, t in symcalls(prog, g, Sg) if io_width(t) and any(x[0] == "len>64k" for x in [("len>64k",)] ) and
             any((tr is True and re.search(r" Gt \(?c:65535", e)) or (tr is True and re.search(r"c:65535[^,]*\) Lt ", e)) or (tr is False and re.search(r" Le \(?c:65535", e)) or
                 # the same test on the high half: `(len >> 16) as u16 != 0`
                 (tr is True and re.search(r"Shr c:16\)(?: as u16\))? (Ne|Gt) c:0\)$", e)) or (tr is False and re.search(r"Shr c:16\)(?: as u16\))? Eq c:0\)$", e))
                 for (e, tr, gg) in Sg.bool_facts_at(b))]
    first_esc = sorted(esc_w, key=lambda w: len(cfg.dominators(g)[w[0]]))[:1]
    ctx.check(bool(first_esc) and first_esc[0][1][1] == "c:0", R, "long-string escape starts with a zero length word", str([w[1][1] for w in first_esc]),
              "write_pool marks a long string with the word %s instead of 0: the reader recognises the escape by `length == 0 && refcount > 0`" % [w[1][1] for w in first_esc], g.loc(), fn=g.name,
              key=R + "|escape-zero")
    setbit = [o for o in gops if o[0] == "BitOr" and "c:%d" % bit in o[1]]
    ok = len(setbit) == 1 and has_fact(Sg, setbit[0][2], r"^\*p1\.long_string_refs$", True)
    if not setbit:
        # `let flag = if self.long_string_refs { BIT } else { 0 }; header = id | flag`: the OR-ed local is BIT exactly under the flag and 0 otherwise
        for o in gops:
            if o[0] != "BitOr":
                continue
            for x in o[1]:
                mloc = re.fullmatch(r"_(\d+)", x)
                if not mloc:
                    continue
                vals = {}
                for (db, di, kind, payload) in Sg.du.whole_defs(int(mloc.group(1))):
                    if kind == "stmt" and payload["rhs"]["rv"] == "use" and payload["rhs"]["ops"][0].get("k") == "const":
                        fl = [tr for (e, tr, gg) in Sg.bool_facts_at(db) if re.fullmatch(r"\*p1\.long_string_refs", e)]
                        vals[payload["rhs"]["ops"][0].get("int")] = fl[-1] if fl else None
                    else:
                        vals["?"] = None
                ok = vals == {bit: True, 0: False}
    ctx.check(ok, R, "write_pool sets the long-refs bit under long_string_refs", "", "write_pool does not OR LONG_STRING_REFS_BIT into the header exactly when long_string_refs", g.loc(), fn=g.name)
    # order of the words written per entry: [0, hi]? lo, refcount ; header first
    ws = [(b, args) for b, n, args, t in symcalls(prog, g, Sg) if io_width(t)]
    ctx.check(len(ws) == 5 and ws[0][1][1].startswith("(") is not None, R, "write_pool emits header + up to four words per entry", "%d write sites" % len(ws),
              "write_pool has %d write sites, expected 5 (header, escape 0, escape high, low, refcount)" % len(ws), g.loc(), fn=g.name)
    if len(ws) == 5:
        dom = cfg.dominators(g)
        lo = [w for w in ws if "BitAnd c:65535" in w[1][1] or re.fullmatch(r"\(\(std::vec::Vec::<T, A>::len\(.*CodePage::encode.*\) as u32\) as u16\)", w[1][1])]
        rc = [w for w in ws if re.search(r"@Some\.0\.1\)?$", w[1][1]) or w[1][1].endswith(".1")]
        ok = len(lo) == 1 and len(rc) == 1 and lo[0][0] in dom[rc[0][0]]
        ctx.check(ok, R, "low length word, then refcount", "", "write_pool does not write (len & 0xffff) followed by the refcount: low %s refcount %s" % (
            [w[1][1] for w in lo], [w[1][1] for w in rc]), g.loc(), fn=g.name)

    hdr = [args for b, n, args, t in symcalls(prog, g, Sg) if n.endswith("CodePage::id")]
    ctx.check(len(hdr) == 1 and hdr[0][0] == "&*p1.codepage", R, "pool header carries the pool's own code page id", str(hdr),
              "write_pool takes the header's code page id from %s, not from self.codepage" % hdr, g.loc(), fn=g.name)
    bd = prog.fn(SP + "StringPoolBuilder::build_from_data")
    Sb = Sym(prog, bd)
    from ..lib import unit_calls, nz
    dec = [args for b, n, args, t, L in unit_calls(prog, bd, Sb) if n.endswith("CodePage::decode")]
    ctx.check(len(dec) == 1 and nz(dec[0][0]) == "p1.codepage", R, "pool strings are decoded with the header's code page", str([a[0] for a in dec]),
              "build_from_data decodes with %s" % [a[0] for a in dec], bd.loc(), fn=bd.name)
    fid = [args for b, n, args, t in symcalls(prog, f, S) if n.endswith("CodePage::from_id")]
    ctx.check(len(fid) == 1 and "BitAnd (Not c:%d)" % bit in fid[0][0], R, "header code page id is looked up after clearing the flag bit", "", "read_from_pool looks up %s" % [a[0][:80] for a in fid], f.loc(), fn=f.name)

    R2 = "POOL-SIB"
    ctx.rule(R2, "write_pool and write_data iterate the same field (self.strings), unfiltered, and encode with self.codepage; the length word is the length of "
                 "the very encoding write_data emits")
    d = prog.fn(SP + "StringPool::write_data")
    Sd = Sym(prog, d)
    ucg, ucd = unit_calls(prog, g, Sg), unit_calls(prog, d, Sd)
    enc_p = [args for b, n, args, t, L in ucg if n.endswith("CodePage::encode")]
    enc_d = [args for b, n, args, t, L in ucd if n.endswith("CodePage::encode")]
    ITER = ("<impl [T]>::iter", "IntoIterator>::into_iter", "IntoIterator::into_iter")
    it_p = [args for b, n, args, t, L in ucg if n.endswith(ITER) and L is None and "p1.strings" in args[0] and "iter(" not in args[0]]
    it_d = [args for b, n, args, t, L in ucd if n.endswith(ITER) and L is None and "p1.strings" in args[0] and "iter(" not in args[0]]
    ok = len(enc_p) == 1 and len(enc_d) == 1 and nz(enc_p[0][0]) == nz(enc_d[0][0]) == "p1.codepage" and len(it_p) == 1 and len(it_d) == 1 and \
        "p1.strings" in it_p[0][0] and "p1.strings" in it_d[0][0]
    ctx.check(ok, R2, "same strings, same code page", "", "write_pool and write_data do not iterate self.strings / encode with self.codepage alike: encode %s vs %s, iter %s vs %s" % (enc_p, enc_d, it_p, it_d), g.loc(), fn=g.name)
    filt = [n for b, n, args, t in symcalls(prog, g, Sg) + symcalls(prog, d, Sd) if re.search(r"Iterator::(filter|skip|take|step_by|rev|filter_map|skip_while|take_while)$", n)]
    ctx.check(not filt, R2, "no filtering adaptor", "", "pool writers use %s: the two streams can get out of step" % filt, g.loc(), fn=g.name)
    ln = [args for b, n, args, t, L in ucg if n.endswith("Vec::<T, A>::len")]
    ctx.check(len(ln) == 1 and "CodePage::encode" in ln[0][0], R2, "length word = encoded length", str(ln), "write_pool measures %s instead of the encoded bytes" % ln, g.loc(), fn=g.name)
    wa = [args for b, n, args, t, L in ucd if n == "std::io::Write::write_all"]
    ctx.check(len(wa) == 1 and "CodePage::encode" in wa[0][1], R2, "write_data emits the encoded bytes", str(wa), "write_data writes %s" % wa, d.loc(), fn=d.name)


def short_ref_bound(ctx, rule):
    """StringRef::write in two-byte mode: exactly the references 1..=0xffff are written, anything above is an error (neither truncated nor refused early)"""
    from ..lib import interval_of
    prog = ctx.prog
    fw = prog.fn(SP + "StringRef::write")
    Sw = Sym(prog, fw)
    ws = [(b, t) for b, t in fw.calls() if (t.get("callee") or "").endswith("write_u16") and has_fact(Sw, b, r"^p3$", False)]
    hi = None
    if len(ws) == 1:
        v = Sw.val(ws[0][1]["args"][1])
        m = re.fullmatch(r"\((.*) as u16\)", v)
        if m:
            lo, hi, ex = interval_of(Sw.bool_facts_at(ws[0][0]), m.group(1))
    ctx.check(len(ws) == 1 and hi == 65535, rule, "short references are written exactly when they fit 16 bits", "upper bound %s" % hi,
              "StringRef::write in two-byte mode writes references up to %s: every reference up to 0xffff must be written (the pool hands out 65,535 of them) and none above "
              "(it would be truncated)" % hi, fw.loc(), fn=fw.name, key=rule + "|short-ref-bound")


def ref_zero_extended(ctx, rule):
    """string references are non-negative numbers up to 2^24: neither the reader nor the pool may pass one through a narrower (sign-carrying) integer type"""
    prog = ctx.prog
    NARROW = re.compile(r" as (i8|i16|u8|u16)\)")
    for name in (SP + "StringRef::read", SP + "StringPool::incref"):
        f = prog.fn(name)
        S = Sym(prog, f)
        vals = []
        for bl in f.blocks:
            if bl["cleanup"]:
                continue
            for st in bl["stmts"]:
                r = st["rhs"]
                if r["rv"] == "agg" and (r.get("adt") or "").endswith("StringRef"):
                    vals.append(S.val(r["ops"][0]))
                if name.endswith("::read") and r["rv"] == "cast" and not st["sp"].get("exp"):
                    vals.append("(%s as %s)" % (S.val(r["ops"][0]), r.get("to")))
        bad = [v for v in vals if NARROW.search(v)]
        if name.endswith("::read"):
            # a reference is an unsigned quantity of two or three bytes: a signed read (read_i16, read_i24) sign-extends its top bit
            bad += [short(cname(prog, t)) for g in prog.unit(f) for b_, t in g.calls() if re.search(r"ReadBytesExt::read_i\d+$", t.get("callee") or "")]
        ctx.check(bool(vals) and not bad, rule, "%s: references never pass through a 16-bit or narrower type" % short(name), "%d values" % len(vals),
                  "%s computes a string reference as %s: references above 0x7fff (pools with more than 32,767 strings) come out negative or truncated" % (short(name), bad[:2]),
                  f.loc(), fn=f.name, key="%s|ref-wide|%s" % (rule, short(name)))


def val_conv(ctx, rule="VAL-CONV"):
    prog = ctx.prog
    ctx.rule(rule, "Value::from(i16 / u16 / i32) is Int of exactly the argument, widened directly to i32 (no intermediate narrower or sign-changing type)")
    n = 0
    for ty in ("i16", "u16", "i32"):
        f = prog.fn("msi::<internal::value::Value as std::convert::From<%s>>::from" % ty)
        v = Sym(prog, f).local(0)
        n += 1
        # ... or delegates the widened argument to Value::from(i32), which is checked in its own right
        ctx.check(v in ("internal::value::Value::Int{(p1 as i32)}", "internal::value::Value::Int{p1}") or
                  (ty != "i32" and v == "<internal::value::Value as std::convert::From<i32>>::from((p1 as i32))"), rule, "Value::from(%s)" % ty, v,
                  "Value::from(%s) builds %s: the integer handed in is not the integer stored (e.g. 40000u16 becomes negative)" % (ty, v), f.loc(), fn=f.name, key="%s|%s" % (rule, ty))
    ctx.floor(rule, "integer conversions into Value", n, 3)


def codec_e(ctx, rule="CODEC-E"):
    prog = ctx.prog
    ctx.rule(rule, "read_from_pool treats (length 0, refcount > 0) as the long-string escape, so no live pool entry may be the empty string: every call of "
                   "StringPool::incref is dominated by a non-emptiness test of the interned string (or incref refuses it itself)")
    inc = prog.fn(SP + "StringPool::incref")
    Si = Sym(prog, inc)
    inside = any(re.search(r"is_empty\(&?\*?p2\)", e) for b in range(len(inc.blocks)) for (e, tr, g) in Si.bool_facts_at(b))
    n = 0
    for f in prog.fns.values():
        if f.crate != "msi":
            continue
        cs = [(b, t) for b, t in f.calls() if cname(prog, t) == inc.name]
        if not cs:
            continue
        S = Sym(prog, f)
        for b, t in cs:
            n += 1
            a = S.val(t["args"][1])
            ok = inside or any(tr is False and "is_empty(" in e and (a in e or a.lstrip("&*") in e) for (e, tr, g) in S.bool_facts_at(b))
            ctx.check(ok, rule, "%s interns a string" % short(f.name), "non-empty by a dominating test",
                      "%s interns %s without excluding the empty string: a live pool entry of length 0 is written, which the reader takes for the "
                      "long-string escape (reopen fails or mis-parses the pool)" % (short(f.name), a), f.loc(t["sp"]), fn=f.name, key="%s|%s" % (rule, short(f.name)))
    ctx.floor(rule, "callers of StringPool::incref", n, 1)


def pool_load(ctx, rule="POOL-LOAD"):
    """every pool entry consumes its bytes and occupies one slot (C01, C02, C08)"""
    from .loops import cycle_without
    prog = ctx.prog
    ctx.rule(rule, "StringPoolBuilder::build_from_data: in every iteration over the (length, refcount) entries exactly `length` bytes are read from _StringData (read_exact, "
                   "propagated) and exactly one entry is pushed, whatever the refcount: string references are 1-based positions and the data stream is the concatenation of ALL "
                   "entries, so skipping the read or the slot of an unused entry shifts every later string")
    f = prog.fn(SP + "StringPoolBuilder::build_from_data")
    S = Sym(prog, f)
    loops = cfg.natural_loops(f)
    nx = [(b, t) for b, t in f.calls() if (t.get("callee") or "").endswith("Iterator::next") and "lengths_and_refcounts" in S.val(t["args"][0])]
    rd = {b for b, t in f.calls() if (t.get("callee") or "").endswith("Read::read_exact")}
    ps = {b for b, t in f.calls() if (t.get("callee") or "").endswith("Vec::<T, A>::push") and "String" in (t.get("written") or "") + f.locals[t["args"][0]["pl"]["l"]]}
    body = [(h, bl) for h, bl in loops.items() if nx and nx[0][0] in bl]
    if not nx:
        # lengths_and_refcounts.into_iter().map(|(len, rc)| { read_exact(len)?; Ok((decode(..), rc)) }).collect::<io::Result<Vec<_>>>()
        from ..lib import lifted_closures
        for L in lifted_closures(prog, f, S):
            if not (L.param and "lengths_and_refcounts" in L.param and L.call_block is not None and cname(prog, f.blocks[L.call_block]["term"]).endswith("Iterator::map")):
                continue
            c = L.fn
            crd = {b for b, t in c.calls() if (t.get("callee") or "").endswith("Read::read_exact")}
            resid = {b for b, t in c.calls() if (t.get("callee") or "").endswith("from_residual")}
            skip = set(c.returns()) & cfg.reachable(c, 0, avoid=crd | resid)
            chain = " ".join(n for b, n, a, t in symcalls(prog, f, S))
            straight = not re.search(r"Iterator::(filter|filter_map|flat_map|skip|take|step_by|skip_while|take_while|rev)\b", chain)
            dec = [L.val(a) for b, t in c.calls() if cname(prog, t).endswith("CodePage::decode") for a in t["args"][:1]]
            ctx.check(bool(crd) and not skip, rule, "every entry's bytes are consumed", "", "the per-entry closure of build_from_data can succeed without read_exact", f.loc(), fn=f.name, key=rule + "|read")
            ctx.check(straight and bool(dec), rule, "every entry keeps its slot", "map over all entries, collected", "build_from_data filters or reorders the entries between the pool stream and the "
                      "collected vector (%s)" % chain[-120:], f.loc(), fn=f.name, key=rule + "|slot")
            return
    if not ctx.check(len(nx) == 1 and body and rd and ps, rule, "loop over the pool entries", "", "build_from_data has no loop over lengths_and_refcounts with a read_exact and a push "
                     "(next %d, read_exact %d, push %d)" % (len(nx), len(rd), len(ps)), f.loc(), fn=f.name, key=rule + "|anchor"):
        return
    h, bl = min(body, key=lambda x: len(x[1]))
    # error exits leave the loop; among the cycles that come back to the header, none may avoid the read or the push
    ok_r = not cycle_without(f, h, bl, rd & bl)
    ok_p = not cycle_without(f, h, bl, ps & bl)
    ctx.check(ok_r, rule, "every entry's bytes are consumed", "", "an iteration of build_from_data can complete without read_exact: the text of every later entry is decoded from the wrong offset",
              f.loc(), fn=f.name, key=rule + "|read")
    ctx.check(ok_p, rule, "every entry keeps its slot", "", "an iteration of build_from_data can complete without pushing an entry: every later string reference points one slot off",
              f.loc(), fn=f.name, key=rule + "|slot")
    # and the pushed text is what was read, the pushed count is the entry's refcount
    for b, t in f.calls():
        if b in ps:
            v = S.val(t["args"][1])
            cond = [e[:60] for (e, tr, g) in S.bool_facts_at(b) if isinstance(tr, bool)]
            ctx.check(("CodePage::decode(" in v or "decode" in v) and not cond, rule, "the slot holds the decoded text, unconditionally", v[:100],
                      "build_from_data pushes %s under the condition %s: entries are stored differently depending on their content" % (v[:80], cond), f.loc(t["sp"]), fn=f.name, key=rule + "|value")
