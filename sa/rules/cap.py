"""CAP: capability closure — functions reachable in a read-only session contain no write to the medium (C16)."""
import re

from ..callgraph import CallGraph, bare_ty, medium_params
from ..lib import cname, short
from ..sym import Sym

# the frozen mutator table: exported functions that are *meant* to change the package
MUTATORS = [
    r"^msi::internal::package::Package::<F>::(create|summary_info_mut|set_database_codepage|create_table|drop_table|"
    r"delete_rows|insert_rows|update_rows|write_stream|remove_stream|remove_digital_signature)$",
    r"^msi::<internal::stream::StreamWriter<F> as std::io::(Write|Seek)>::",
]
CLOSERS = [
    "msi::internal::package::Package::<F>::flush",
    "msi::internal::package::Package::<F>::into_inner",
    "msi::<internal::package::Package<F> as std::ops::Drop>::drop",
]
WRITE_METHODS = re.compile(r"^(std::io::Write::(write|write_all|write_vectored|write_fmt|write_all_vectored)|byteorder::WriteBytesExt::\w+)$")
MEM_BUFFERS = ("std::vec::Vec<u8>", "std::io::Cursor<", "[u8]", "std::io::Sink", "std::io::BufWriter<")


def _split_top(s):
    out, cur, depth = [], "", 0
    for ch in s:
        if ch in "<([":
            depth += 1
        elif ch in ">)]":
            depth -= 1
        if ch == "," and depth == 0:
            out.append(cur)
            cur = ""
        else:
            cur += ch
    if cur.strip():
        out.append(cur)
    return out


def is_mutator(f):
    return any(re.search(p, f.name) for p in MUTATORS)


def _bare(ty):
    t = (ty or "").strip()
    while t.startswith("&"):
        t = t[1:].lstrip()
        if t.startswith("mut "):
            t = t[4:]
        if t.startswith("'"):
            t = t.split(" ", 1)[1] if " " in t else t
    return t


class Cap:
    def __init__(self, prog):
        self.prog = prog
        self.cg = CallGraph(prog, dyn_gate=lambda k: False)
        self._sym = {}
        self.write_impl_types = set()
        for f in self.cg.impls.get("std::io::Write::write", []):
            self.write_impl_types.add(re.sub(r"<.*", "", f.impl_self or ""))

    def sym(self, f):
        if f.id not in self._sym:
            self._sym[f.id] = Sym(self.prog, f)
        return self._sym[f.id]

    # -- slots -----------------------------------------------------------------
    def slot_of(self, f, t):
        """name of the Option<Box<dyn _>> field a dyn receiver was taken from"""
        a = self.sym(f).val(t["args"][0])
        m = re.findall(r"\.([a-z_]+)\)?@Some", a) or re.findall(r"take\([^()]*\.([a-z_]+)\)", a) or re.findall(r"\.([a-z_]+)\b", a)
        return m[-1] if m else None

    def _puts_back(self, f, field, rhs):
        """the stored value is Some(v) with v the payload of `self.<field>.take()` taken earlier in the same function"""
        S = self.sym(f)
        ops = rhs.get("ops", [])
        if not ops:
            return False
        v = S.val(ops[0])
        return re.search(r"Option::<T>::take\([^()]*\.%s\)\)?@Some\.0" % re.escape(field), v) is not None or \
            (rhs["rv"] == "use" and re.search(r"Option::<T>::take\([^()]*\.%s\)$" % re.escape(field), v) is not None)

    def slot_setters(self, field):
        """functions that store Some(..) (anything but a None aggregate) into a field with this name,
        or build the owning struct with a non-None operand for it"""
        out = []
        for f in self.prog.fns.values():
            for b in f.blocks:
                if b["cleanup"]:
                    continue
                for s in b["stmts"]:
                    names = [e["n"] for e in s["lhs"]["p"] if isinstance(e, dict) and "f" in e]
                    r = s["rhs"]
                    if names and names[-1] == field:
                        if not (r["rv"] == "agg" and r.get("variant") == "None"):
                            if self._puts_back(f, field, r):
                                continue  # `let x = self.slot.take(); ..; self.slot = Some(x)`: the slot is restored, not armed
                            out.append((f, b["id"], "assigns %s" % field))
                    if r["rv"] == "agg" and r.get("adt") and r.get("variant") not in ("None", "Some"):
                        adt = self._adt(f, r["adt"])
                        if adt:
                            for v in adt["variants"]:
                                for i, (fname, fty) in enumerate(v["fields"]):
                                    if fname == field and i < len(r["ops"]):
                                        val = self.sym(f).val(r["ops"][i])
                                        if "None{}" not in val:
                                            out.append((f, b["id"], "constructs %s with %s = %s" % (r["adt"], field, val)))
                t = b["term"]
                if t["t"] == "call":
                    # &mut of the slot passed to anything other than Option::take / is_none / is_some / as_ref
                    for a in t["args"]:
                        if a.get("k") in ("move", "copy"):
                            v = self.sym(f).val(a)
                            if re.search(r"^&\*?.*\.%s$" % field, v) and "mut" in f.locals[a["pl"]["l"]]:
                                n = t.get("callee") or ""
                                if not re.search(r"Option::<T>::(take|is_none|is_some|as_ref|as_mut)$", n):
                                    out.append((f, b["id"], "passes &mut %s to %s" % (field, n)))
        return out

    def _adt(self, f, path):
        for c in (f.crate, "msi", "cfb", "msi_ffi"):
            a = self.prog.adts.get(c + "::" + path)
            if a:
                return a
        if path.startswith(("msi::", "cfb::")):
            return self.prog.adts.get(path)
        return None

    # -- sinks -----------------------------------------------------------------
    def write_sinks(self, f):
        out = []
        for b, t in f.calls():
            n = t.get("callee") or ""
            if not WRITE_METHODS.match(n):
                continue
            if self.prog.callee_fn(t) is not None and t.get("rid") in self.prog.fns:
                continue  # resolved to an analysed impl: traversed, not a sink
            st = bare_ty(t.get("selfty"))
            base = re.sub(r"<.*", "", st)
            if any(st.startswith(m) for m in MEM_BUFFERS):
                continue
            if base and base in self.write_impl_types:
                continue  # provided method on an analysed Write type: calls back into its impl (callback edge)
            if re.fullmatch(r"[A-Z][A-Za-z0-9]*", st) and st not in medium_params(f) and self.param_instantiated_by_analysed(f):
                continue  # generic writer parameter, instantiated only with analysed Write types (dispatch edges followed)
            out.append((b, t, st))
        return out

    def param_instantiated_by_analysed(self, g):
        """every call site of generic function g names concrete analysed types for its own type arguments"""
        g = g.owner or g
        sites = 0
        for f in self.prog.fns.values():
            for b, t in f.calls():
                if self.prog.callee_fn(t) is g:
                    sites += 1
                    w = t.get("written") or ""
                    m = re.search(r"::<(.*)>$", w)
                    if not m:
                        return False
                    args = [a.strip() for a in _split_top(m.group(1))]
                    for a in args:
                        a = bare_ty(a)
                        if a.startswith("'"):
                            continue
                        base = re.sub(r"<.*", "", a)
                        if re.fullmatch(r"[A-Z][A-Za-z0-9]*", a):
                            # forwarded generic parameter of the caller: must itself be instantiated by analysed types
                            if a in medium_params(f) or not self.param_instantiated_by_analysed(f):
                                return False
                        elif base not in self.write_impl_types and not any(a.startswith(mb) for mb in MEM_BUFFERS) \
                                and not a.startswith(("byteorder::", "[closure", "{closure")):
                            return False
        return sites > 0

    # -- closure ---------------------------------------------------------------
    def closure(self, entries):
        R = self.cg.closure(entries)
        self.R0 = set(R)
        armed = {}
        changed = True
        while changed:
            changed = False
            for (f, b, t, cands, is_dyn) in self.cg.dyn_sites:
                if not is_dyn or f.id not in R:
                    continue
                slot = self.slot_of(f, t)
                key = (f.id, b)
                if key in armed:
                    continue
                setters = self.slot_setters(slot) if slot else [(f, b, "unknown slot")]
                hit = [s for s in setters if s[0].id in R]
                if hit or not slot:
                    armed[key] = (slot, hit)
                    R |= self.cg.closure(cands)
                    changed = True
        return R, armed


def run(ctx, rule="CAP-1"):
    prog = ctx.prog
    ctx.rule(rule, "R = least set of functions closed under calls (msi+cfb; closures, fn items, drop glue, generic and callback "
                   "dispatch to every analysed impl) from every exported msi function outside the frozen mutator table plus the three "
                   "closers; a dyn call through an Option<Box<dyn _>> slot contributes its impls only if a function storing Some "
                   "into that slot is already in R. R must contain (a) no std::io::Write::{write*,write_fmt}/byteorder::WriteBytesExt "
                   "call on a receiver that is not an analysed Write type or an in-memory buffer, (b) no slot setter")
    cap = Cap(prog)
    exported = [f for f in prog.fns.values() if f.crate == "msi" and f.exported and f.kind in ("Fn", "AssocFn")]
    muts = [f for f in exported if is_mutator(f)]
    entries = [f for f in exported if not is_mutator(f)]
    for c in CLOSERS:
        g = prog.fn(c)
        if g not in entries:
            entries.append(g)
    ctx.floor(rule, "exported read-side entry functions", len(entries), 150)
    ctx.floor(rule, "mutator table matches", len(muts), 12)
    R, armed = cap.closure(entries)
    nsinks = 0
    behind_slot = []
    for fid in sorted(R, key=lambda i: prog.fns[i].name):
        f = prog.fns[fid]
        sinks = cap.write_sinks(f)
        if not sinks:
            ctx.ok(rule, f.name, "no write to the medium", f.loc())
            continue
        nsinks += len(sinks)
        if fid not in cap.R0:
            behind_slot.append(short(f.name))  # consequence of an armed slot, reported once below
            continue
        (b, t, st) = sinks[0]
        path = cap.cg.path(entries, fid)
        ctx.violation(rule, "%s writes to the medium" % short(f.name),
                      "%d write call(s) on the medium (first: %s on %s) reachable in a read-only session: %s" % (
                          len(sinks), t["callee"], st or "?", " -> ".join(short(p) for p in (path or [f.name]))),
                      f.loc(t["sp"]), fn=f.name, path=path, key="%s|write|%s" % (rule, f.name))
    seen_slot = set()
    for (fid, b), (slot, hit) in sorted(armed.items()):
        f = prog.fns[fid]
        for (sf, sb, why) in hit or [(f, b, "slot could not be identified")]:
            if (slot, sf.id) in seen_slot:
                continue
            seen_slot.add((slot, sf.id))
            path = cap.cg.path(entries, sf.id)
            why = why + "; writers now reachable: " + ", ".join(sorted(set(behind_slot))[:12])
            ctx.violation(rule, "slot `%s` armed by %s" % (slot, short(sf.name)),
                          "%s (%s) is reachable in a read-only session, so the deferred writer behind `%s` can run: %s" % (
                              short(sf.name), why, slot, " -> ".join(short(p) for p in (path or []))),
                          sf.loc(sf.blocks[sb]["term"]["sp"]), fn=sf.name, path=path,
                          key="%s|slot|%s|%s" % (rule, slot, sf.name))
    # dyn sites that stayed unarmed are recorded as discharged obligations
    for (f, b, t, cands, is_dyn) in cap.cg.dyn_sites:
        if is_dyn and f.id in R and (f.id, b) not in armed:
            slot = cap.slot_of(f, t)
            setters = cap.slot_setters(slot)
            ctx.ok("CAP-SLOT", "%s dyn %s via slot `%s`" % (short(f.name), t["callee"], slot),
                   "not armed: setters %s are all outside R" % sorted({short(s[0].name) for s in setters}), f.loc(t["sp"]))
    ctx.extra["cap"] = dict(entries=len(entries), mutators=sorted(short(m.name) for m in muts), closure_size=len(R),
                            closure_msi=len([i for i in R if prog.fns[i].crate == "msi"]),
                            closure_cfb=len([i for i in R if prog.fns[i].crate == "cfb"]), write_sinks_in_R=nsinks)
    ctx.assume("the medium changes only through std::io::Write calls on it (the only mutating capability its trait bounds give)")
    return cap, R, entries


def cap2(ctx, rule="CAP-2"):
    """open() builds Package with finisher None and unmodified flags; build_from_data with is_modified false"""
    prog = ctx.prog
    ctx.rule(rule, "Package::open constructs Package with finisher: None (the dirty flags alone cannot cause a write: only the finisher writes, and CAP-1 shows "
                   "no read-side function arms it)")
    checks = [
        ("msi::internal::package::Package::<F>::open", "internal::package::Package", {"finisher": "None"}),
    ]
    for fname, adt, want in checks:
        f = prog.fn(fname)
        S = Sym(prog, f)
        a = prog.adts.get("msi::" + adt)
        if not a:
            ctx.anchor_missing(rule, "ADT " + adt)
            continue
        fields = [x[0] for x in a["variants"][0]["fields"]]
        n = 0
        for b in f.blocks:
            if b["cleanup"]:
                continue
            for s in b["stmts"]:
                r = s["rhs"]
                if r["rv"] == "agg" and r.get("adt") == adt:
                    n += 1
                    for fld, w in want.items():
                        if fld not in fields:
                            ctx.anchor_missing(rule, "field %s of %s" % (fld, adt))
                            continue
                        v = S.val(r["ops"][fields.index(fld)])
                        ok = (w in v) if w == "None" else (v == w)
                        ctx.check(ok, rule, "%s: %s.%s" % (short(fname), adt.rsplit("::", 1)[-1], fld),
                                  "initialised to %s" % v, "initialised to %s, expected %s" % (v, w), f.loc(s["sp"]), fn=fname)
        ctx.floor(rule, "aggregate constructions of %s in %s" % (adt, short(fname)), n, 1)
