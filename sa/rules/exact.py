"""Small exactness rules written from the sixth seeded round."""
import re

from .. import cfg
from ..lib import cname, short, symcalls
from ..sym import Sym


def value_display(ctx, rule="VALUE-LIT"):
    prog = ctx.prog
    ctx.rule(rule, "Display for Value never prints NULL for a Value::Str, and prints a string literal for every Value::Str whatever its content (the empty string is a string: "
                   "`S = \"\"` and `S = NULL` select different rows)")
    f = prog.fn("msi::<internal::value::Value as std::fmt::Display>::fmt")
    S = Sym(prog, f)
    vs = {v["name"]: v["idx"] for v in prog.adts["msi::internal::value::Value"]["variants"]}
    bad = []
    n = 0
    for b, nme, args, t in symcalls(prog, f, S):
        txt = " ".join(args)
        if "s:'NULL'" in txt:
            n += 1
            left = set(vs.values())
            for (e, tr, g) in S.bool_facts_at(b):
                if not re.fullmatch(r"discr\(\**p1\)", e) or not isinstance(tr, tuple):
                    continue
                if tr[0] == "==":
                    left &= {tr[1]}
                elif tr[0] == "!=":
                    left -= {tr[1]}
                elif tr[0] == "notin":
                    left -= set(tr[1])
                elif tr[0] == "in":
                    left &= set(tr[1])
            # (an Int arm excluded through a helper such as as_int() is not visible in these facts; what the rule decides is that no *string* is printed as NULL)
            if vs.get("Str") in left or vs.get("Null") not in left:
                names = sorted(k for k, v in vs.items() if v in left)
                bad.append("NULL printed for %s" % names)
    extra = [e[:60] for g in prog.unit(f) for Sg in [S if g is f else Sym(prog, g)] for bl in g.blocks if not bl["cleanup"] and bl["term"]["t"] == "switch"
             for e in [Sg.val(bl["term"]["discr"])] if "@Str.0" in e and re.search(r"is_empty|::len\(|PartialEq|s:''", e)]
    ctx.check(n >= 1 and not bad and not extra, rule, "NULL is printed for Value::Null only; no test on a value's content", "%d NULL site(s)" % n,
              "Display for Value %s%s: a literal is printed as a different literal (for instance \"\" as NULL), so the printed query selects other rows" % (
                  "; ".join(bad), " branches on %s" % extra if extra else ""), f.loc(), fn=f.name, key=rule)


def exact_column_lookup(ctx, rule="COL-EXACT"):
    prog = ctx.prog
    ctx.rule(rule, "Table::index_for_column_name (through which assignments, projections and conditions resolve names) compares names exactly: no case folding or trimming, "
                   "so two columns that differ only in case stay distinct")
    f = prog.fn("msi::internal::table::Table::index_for_column_name")
    unit = prog.unit(f)
    loose = sorted({cname(prog, t).rsplit("::", 1)[-1] for g in unit for b, t in g.calls()
                    if re.search(r"::(eq_ignore_ascii_case|to_lowercase|to_uppercase|to_ascii_lowercase|to_ascii_uppercase|trim\w*|starts_with|ends_with|contains)$", cname(prog, t))})
    eqs = [1 for g in unit for b, t in g.calls() if re.search(r"PartialEq::(eq|ne)$", t.get("callee") or "")]
    ctx.check(not loose, rule, "exact name comparison", "%d equality test(s)" % len(eqs),
              "Table::index_for_column_name compares column names through %s: a query naming one column can reach another" % loose, f.loc(), fn=f.name, key=rule)


def rows_len(ctx, rule="ROWS-LEN"):
    prog = ctx.prog
    ctx.rule(rule, "Rows reports as its length the number of rows it still yields: ExactSizeIterator::len is not overridden, or equals rows.len() - next_row_index as size_hint does")
    fs = [g for g in prog.fns.values() if g.crate == "msi" and re.search(r"table::Rows<'a> as std::iter::ExactSizeIterator>::len$", g.name)]
    ok, got = True, "not overridden"
    for g in fs:
        got = Sym(prog, g).local(0)
        ok = "next_row_index" in got and "Sub" in got
    ctx.check(ok, rule, "Rows::len", got[:80], "Rows::len is overridden as %s: after some rows were taken it no longer equals the number of rows left" % got[:120], key=rule)


def decref_exact(ctx, rule="DECREF-EXACT"):
    prog = ctx.prog
    ctx.rule(rule, "StringPool::decref decrements every positive count: the only conditions on the path to the decrement are the bounds test on the reference and `count >= 1`")
    f = prog.fn("msi::internal::stringpool::StringPool::decref")
    S = Sym(prog, f)
    sub = [bl["id"] for bl in f.blocks if not bl["cleanup"] and bl["term"]["t"] == "assert" and "Overflow:Sub" in str(bl["term"].get("msg"))] or \
        [bl["id"] for bl in f.blocks if not bl["cleanup"] for st in bl["stmts"] if st["rhs"]["rv"] == "bin" and st["rhs"]["op"].startswith("Sub")]
    bad = []
    for b in sub[:1]:
        for (e, tr, g) in S.bool_facts_at(b):
            m = re.search(r"(Eq|Ne|Lt|Le|Gt|Ge) \(?c:(\d+)", e)
            if m and int(m.group(2)) > 1 and "len(" not in e:
                bad.append(e[:80])
    ctx.check(bool(sub) and not bad, rule, "decref has no saturation case", "", "StringPool::decref skips the decrement under %s: a count that reached that value is never released again and "
              "the saved refcount exceeds the number of referring cells" % bad, f.loc(), fn=f.name, key=rule)


def lpstr_exact(ctx, rule="LPSTR-EXACT"):
    prog = ctx.prog
    ctx.rule(rule, "PropertyValue::read hands the bytes of a string property to the decoder as they were read: nothing pops, truncates or trims them (a stored string may end in U+0000)")
    f = prog.fn("msi::internal::propset::PropertyValue::read")
    ALWAYS = r"(Vec::<T, A>::(retain|dedup\w*)|<impl \[T\]>::(trim\w*|strip_suffix|rsplit\w*|split_last)|<impl str>::trim\w*)$"
    IN_LOOP = r"(Vec::<T, A>::(pop|truncate|drain|split_off|remove)|<impl \[T\]>::(last|ends_with))$"
    post = set()
    for g in prog.unit(f):
        inloop = set().union(*cfg.natural_loops(g).values()) if cfg.natural_loops(g) else set()
        for b, t in g.calls():
            n = cname(prog, t)
            # one removal of the terminator that was read with the text is the format's; removal that repeats, or that looks at the bytes' values, is not
            if re.search(ALWAYS, n) or (re.search(IN_LOOP, n) and b in inloop):
                post.add(n.rsplit("::", 1)[-1])
    post = sorted(post)
    ctx.check(not post, rule, "string bytes reach the decoder unchanged", "", "PropertyValue::read post-processes the bytes of a string property with %s: trailing bytes that were "
              "written are lost on reopen" % post, f.loc(), fn=f.name, key=rule)


def table_name_gate(ctx, rule="TABLE-NAME-GATE"):
    prog = ctx.prog
    ctx.rule(rule, "Package::open admits a table name read from _Tables only after streamname::is_valid(name, true) held: every table of an opened package can then be given a "
                   "stream by insert/update/delete (the container crate asserts, and does not check, the names of the streams it creates)")
    f = prog.fn("msi::internal::package::Package::<F>::open")
    S = Sym(prog, f)
    cs = symcalls(prog, f, S)
    gates = [c for c in cs if c[1].endswith("streamname::is_valid") and len(c[2]) == 2 and c[2][1] == "c:1"]
    ins = [c for c in cs if c[1].endswith("HashSet::<T, S, A>::insert") and "HashSet::<std::string::String>" in (c[3].get("written") or "")]
    bad = []
    for c in ins:
        v = c[2][1].lstrip("&*")
        # the admitted value is the validated name or a copy of it (to_string / to_owned / clone): the gate need only hold, with is_table = true, where the name is admitted
        if not any(tr is True and "streamname::is_valid(" in e and e.rstrip(")").endswith("c:1") for (e, tr, g) in S.bool_facts_at(c[0])):
            bad.append(v[:80])
    ctx.check(bool(gates) and not bad, rule, "table names from the file are validated", "%d gate(s), %d admission site(s)" % (len(gates), len(ins)),
              "Package::open admits a table name from _Tables without streamname::is_valid(name, true) (%s): a file naming a table `F:o`, or one with a name of more than 31 encoded "
              "units, opens, and the first insert/update/delete on that table panics inside the container crate when the table stream is created" % (bad or "no gate"),
              f.loc(), fn=f.name, key=rule)


def language_list_total(ctx, rule="LANGLIST-ALL"):
    prog = ctx.prog
    ctx.rule(rule, "Value::from(&[Language]) writes one code per language of the list, whatever the code: nothing filters, skips or deduplicates, and no branch looks at a code "
                   "(a list of neutral languages is `0`, a valid Language value; the empty string is not)")
    fs = [g for g in prog.fns.values() if g.crate == "msi" and re.search(r"Value as std::convert::From<&'a \[internal::language::Language\]>>::from$", g.name)]
    if not fs:
        fs = [g for g in prog.fns.values() if g.crate == "msi" and "Value as std::convert::From<&" in g.name and "Language]" in g.name and g.kind != "Closure"]
    if not fs:
        ctx.anchor_missing(rule, "impl From<&[Language]> for Value")
        return
    f = fs[0]
    unit = prog.unit(f)
    drop = sorted({cname(prog, t).rsplit("::", 1)[-1] for g in unit for b, t in g.calls()
                   if re.search(r"Iterator::(filter|filter_map|skip|skip_while|take|take_while|step_by|flat_map|map_while|scan)$|Vec::<T, A>::(retain|dedup\w*|truncate|pop|remove|drain)$|"
                                r"<impl \[T\]>::(split\w*|strip\w*)$", t.get("callee") or "")})
    picky = []
    for g in unit:
        Sg = Sym(prog, g)
        for bl in g.blocks:
            if bl["cleanup"] or bl["term"]["t"] != "switch":
                continue
            v = Sg.val(bl["term"]["discr"])
            if re.search(r"Language::code|language::Language", v):
                picky.append(v[:70])
    ctx.check(not drop and not picky, rule, "every language of the list is written", "", "Value::from(&[Language]) leaves languages out (%s %s): a list of neutral languages becomes the "
              "empty string, which a Language column refuses" % (drop, picky), f.loc(), fn=f.name, key=rule)
