"""C19 PREC (printer model vs grammar ladder), DISPLAY-TOK; C13 OP-TABLE, FOLD-SAME, TRUTH."""
import os
import re

from .. import cfg, tables
from ..facts import REPO
from ..lib import closure_sites, calls, cname, short
from ..sym import Sym

AST = "internal::expr::Ast"
BINOP = "internal::expr::BinOp"
UNOP = "internal::expr::UnOp"

TOKENS_REF = {
    "Eq": "=", "Ne": "!=", "Lt": "<", "Le": "<=", "Gt": ">", "Ge": ">=", "Add": "+", "Sub": "-", "Mul": "*", "Div": "/",
    "BitAnd": "&", "BitOr": "|", "BitXor": "^", "Shl": "<<", "Shr": ">>",
    "Neg": "-", "BitNot": "~", "BoolNot": "NOT", "And": "AND", "Or": "OR",
}


# --------------------------------------------------------------------------- pest ladder
def parse_pest(path):
    txt = open(path).read()
    txt = re.sub(r"//[^\n]*", "", txt)
    rules = {}
    for m in re.finditer(r"(\w+)\s*=\s*[_@$!]?\{((?:[^{}]|\{[^{}]*\})*)\}", txt):
        rules[m.group(1)] = " ".join(m.group(2).split())
    tok = {}
    for name, body in rules.items():
        m = re.fullmatch(r'\^?"([^"]+)"(?: ~ .*)?', body)
        if m and (name.startswith("Op") or name.startswith("Kw")):
            tok[name] = m.group(1)
    levels = []  # list of dict(name, ops:[text], kind: 'chain'|'binary'|'unary')
    cur = "Expr"
    seen = set()
    while cur in rules and cur not in seen:
        seen.add(cur)
        alts = [a.strip() for a in rules[cur].split("|")]
        nxt = None
        here = []
        for a in alts:
            if re.fullmatch(r"Expr\d+", a):
                nxt = a
            elif a.startswith("Expr") and a in rules:
                here.append(a)
        for r in here:
            body = rules[r]
            ops = [tok[o] for o in re.findall(r"\b(?:Op|Kw)\w+", body) if o in tok and o not in ("OpParenL", "OpParenR")]
            if re.match(r"^(Op|Kw)\w+ ~", body):
                kind = "unary"
            elif ")+" in body:
                kind = "chain"
            else:
                kind = "binary"
            levels.append(dict(rule=r, ops=ops, kind=kind, group=cur))
        if nxt is None:
            break
        cur = nxt
    return levels


def ladder(levels):
    """operator text -> (level index (grouped by ExprN), kind); unary handled separately by text+kind"""
    out = {}
    groups = []
    for l in levels:
        if l["group"] not in groups:
            groups.append(l["group"])
    for l in levels:
        li = groups.index(l["group"]) + 1
        for o in l["ops"]:
            out[(o, "unary" if l["kind"] == "unary" else "binary")] = (li, l["kind"])
    return out


# --------------------------------------------------------------------------- printer model
def arm_blocks(f, dom, target):
    return {b for b in dom if target in dom[b]}


def order_by_dominance(dom, blocks):
    return sorted(blocks, key=lambda b: len(dom[b]))


def printer_model(ctx, prog):
    f = prog.fn("msi::internal::expr::Ast::format_with_precedence")
    S = Sym(prog, f)
    dom = cfg.dominators(f)
    sw = tables.first_switch(f)
    if sw is None:
        raise KeyError("top-level match of format_with_precedence")
    t = f.blocks[sw]["term"]
    vs = tables.enum_variants(prog, "msi", AST)
    prec_tab = {}
    for g in prog.fns.values():
        if g.crate == "msi" and g.kind == "AssocFn" and g.parent in (BINOP, UNOP) and g.locals[0] == "i32" and g.argc == 1:
            tab = tables.enum_table(prog, g, g.parent)
            if tab:
                prec_tab[g.path] = tab
    model = {}
    for v, tgt in t["cases"]:
        name = vs.get(v)
        blks = arm_blocks(f, dom, tgt)
        rec = [(b, tt) for b, tt in f.calls() if b in blks and cname(prog, tt) == f.name]
        rec = sorted(rec, key=lambda x: len(dom[x[0]]))
        passed = [S.val(tt["args"][2]) for b, tt in rec]
        opens = []
        closes = []
        toks = []
        for b, tt in f.calls():
            if b not in blks or not (tt.get("callee") or "").endswith("Formatter::<'a>::write_str"):
                continue
            sv = S.val(tt["args"][1])
            m = re.search(r"s:'(.*)'$", sv)
            lit = m.group(1) if m else None
            lts = []
            for (e, truth, g) in S.bool_facts_at(b):
                # `X < parent_prec` in any spelling: X < p, p > X, !(p <= X), !(X >= p)
                if not isinstance(truth, bool):
                    continue
                from ..sym import split_bin as _sb
                sb_ = _sb(e)
                if not sb_:
                    continue
                a_, op_, b_ = sb_
                if b_ == "p3" and ((op_ == "Lt" and truth) or (op_ == "Ge" and not truth)):
                    lts.append("(%s Lt p3)" % a_)
                elif a_ == "p3" and ((op_ == "Gt" and truth) or (op_ == "Le" and not truth)):
                    lts.append("(%s Lt p3)" % b_)
            if lit == "(":
                opens.append(lts)
            elif lit == ")":
                closes.append(lts)
            elif lit is not None:
                toks.append((b, lit))
        model[name] = dict(passed=passed, opens=opens, closes=closes, toks=toks, blocks=blks, target=tgt, fn=f, S=S)
    # a table-driven printer (every arm only fills in (precedence, operands, symbol) and one shared tail prints them): the per-arm regions above hold no
    # printing at all; read each variant on the body specialised to it instead
    if all(not model.get(n, {}).get("passed") for n in ("UnOp", "BinOp", "And", "Or")):
        from ..spec import specialise
        dexpr = S.val(t["discr"])
        for v, name in vs.items():
            g = specialise(prog, f, dexpr, v)
            Sg = Sym(prog, g)
            domg = cfg.dominators(g)
            live = {bl["id"] for bl in g.blocks if not bl["cleanup"] and bl["id"] in domg}
            rec = sorted([(b, tt) for b, tt in g.calls() if b in live and cname(prog, tt) == f.name], key=lambda x: len(domg[x[0]]))
            passed = [Sg.val(tt["args"][2]) for b, tt in rec]
            opens, closes, toks = [], [], []
            for b, tt in sorted(g.calls(), key=lambda x: len(domg.get(x[0], ()))):
                if b not in live or not (tt.get("callee") or "").endswith("Formatter::<'a>::write_str"):
                    continue
                m = re.search(r"s:'(.*)'$", Sg.val(tt["args"][1]))
                lit = m.group(1) if m else None
                lts = _lt_parent_facts(Sg, b)
                if lit == "(":
                    opens.append(lts)
                elif lit == ")":
                    closes.append(lts)
                elif lit is not None:
                    toks.append((b, lit))
            model[name] = dict(passed=passed, opens=opens, closes=closes, toks=toks, blocks=live, target=None, fn=g, S=Sg)
    return f, S, model, prec_tab, vs


def _lt_parent_facts(S, b):
    """`X < parent_prec` facts at block b, normalised to '(X Lt p3)' over the spellings X < p, p > X, !(p <= X), !(X >= p)"""
    from ..sym import split_bin as _sb
    out = []
    for (e, truth, g) in S.bool_facts_at(b):
        if not isinstance(truth, bool):
            continue
        sb_ = _sb(e)
        if not sb_:
            continue
        a_, op_, b_ = sb_
        if b_ == "p3" and ((op_ == "Lt" and truth) or (op_ == "Ge" and not truth)):
            out.append("(%s Lt p3)" % a_)
        elif a_ == "p3" and ((op_ == "Gt" and truth) or (op_ == "Le" and not truth)):
            out.append("(%s Lt p3)" % b_)
    return out


def prec_value(expr, prec_tab, op, _depth=0):
    """evaluate an extracted precedence expression for a concrete BinOp variant name"""
    e = expr
    m = re.fullmatch(r"\((.*) Add! c:(\d+)\)\.0", e)
    if m:
        inner = prec_value(m.group(1), prec_tab, op, _depth)
        return None if inner is None else inner + int(m.group(2))
    m = re.fullmatch(r"c:(-?\d+)", e)
    if m:
        return int(m.group(1))
    m = re.match(r"(?:call@\d+:)?(internal::expr::(?:BinOp|UnOp)::\w+)", e)
    if m:
        d = (prec_tab.get(m.group(1)) or {}).get(op) if op else None
        if d and d[0] == "int":
            return d[1]
        # a table derived from another one: `left_operand_precedence` written as `self.precedence()` or `self.precedence() + 1` per arm
        if d and d[0] == "expr" and _depth < 3:
            return prec_value(d[1], prec_tab, op, _depth + 1)
        if d and d[0] == "call" and _depth < 3 and len(d) > 1 and isinstance(d[1], str):
            return prec_value(d[1], prec_tab, op, _depth + 1)
        return None
    return None


def variant_tokens(prog, f, S, blks, discr_pat):
    """for the sub-switch on an operator discriminant inside an arm: variant index -> written token.
    Two forms: each case calls write_str(literal); or each case assigns a literal to one local that a later write_str prints
    (a `symbol()` table, inlined or written as a match expression)."""
    out = {}
    cand = list(blks) + [b["id"] for b in f.blocks if b["id"] not in set(blks) and not b["cleanup"]]
    for b in cand:
        t = f.blocks[b]["term"]
        if t["t"] == "switch" and re.fullmatch(discr_pat, S.val(t["discr"])):
            got = {}
            for v, tgt in t["cases"]:
                tt = f.blocks[tgt]["term"]
                if tt["t"] == "call" and (tt.get("callee") or "").endswith("write_str"):
                    m = re.search(r"s:'(.*)'$", S.val(tt["args"][1]))
                    got[v] = m.group(1) if m else None
                    continue
                # literal assigned in the case block, printed after the join
                lit = [(s_["lhs"]["l"], s_["rhs"]["ops"][0]["str"]) for s_ in f.blocks[tgt]["stmts"]
                       if s_["rhs"]["rv"] == "use" and not s_["lhs"]["p"] and s_["rhs"]["ops"][0].get("k") == "const" and "str" in s_["rhs"]["ops"][0]]
                if len(lit) == 1 and _printed_later(prog, f, tgt, lit[0][0]):
                    got[v] = lit[0][1]
            if got and not out:
                out = got
    return out


def _printed_later(prog, f, blk, local):
    """the local assigned in blk reaches the string argument of a write_str call reachable from blk"""
    from ..flow import derived_locals
    from .. import cfg as _cfg
    der = derived_locals(f, {local})
    for b in _cfg.reachable(f, blk):
        t = f.blocks[b]["term"]
        if t["t"] == "call" and (t.get("callee") or "").endswith("write_str") and len(t["args"]) > 1:
            a = t["args"][1]
            if a.get("pl") and a["pl"]["l"] in der:
                return True
    return False


def run_c19(ctx):
    prog = ctx.prog
    ctx.rule("PREC", "model of Ast::format_with_precedence extracted from MIR (own precedence, precedence handed to each child, bracket "
                     "test per variant; BinOp::precedence table) decided against the ladder of examples/msiquery.pest for every (parent "
                     "operator, side, child operator) triple: wherever the grammar needs brackets to re-read the same tree, the printer "
                     "must emit them ('^', absent from the grammar, sits between | and & as the property states)")
    ctx.rule("DISPLAY-TOK", "each operator variant prints the token the grammar (and the documentation) assigns to it")
    pest = os.path.join(REPO, "examples", "msiquery.pest")
    if not os.path.exists(pest):
        ctx.anchor_missing("PREC", "examples/msiquery.pest")
        return
    levels = parse_pest(pest)
    lad = ladder(levels)
    ctx.floor("PREC", "grammar levels parsed from msiquery.pest", len(levels), 11)
    try:
        f, S, model, prec_tab, vs = printer_model(ctx, prog)
    except KeyError as e:
        ctx.anchor_missing("PREC", str(e))
        return
    for need in ("UnOp", "BinOp", "And", "Or"):
        if need not in model:
            ctx.anchor_missing("PREC", "arm for Ast::%s" % need)
            return
    bin_vs = tables.enum_variants(prog, "msi", BINOP)
    un_vs = tables.enum_variants(prog, "msi", UNOP)
    btok = variant_tokens(prog, model["BinOp"]["fn"], model["BinOp"]["S"], model["BinOp"]["blocks"], r"discr\(\*p1@BinOp\.0\)")
    utok = variant_tokens(prog, model["UnOp"]["fn"], model["UnOp"]["S"], model["UnOp"]["blocks"], r"discr\(\*p1@UnOp\.0\)")
    tok = {}
    for d, name in bin_vs.items():
        tok[name] = (btok.get(d) or "").strip()
    for d, name in un_vs.items():
        tok[name] = (utok.get(d) or "").strip()
    for name in ("And", "Or"):
        ts = [l.strip() for b, l in model[name]["toks"]]
        tok[name] = ts[0] if ts else ""
    for name, t in sorted(tok.items()):
        ctx.check(t == TOKENS_REF.get(name), "DISPLAY-TOK", name, "prints %r" % t,
                  "%s prints %r, expected %r" % (name, t, TOKENS_REF.get(name)), f.loc(), fn=f.name, key="DISPLAY-TOK|%s" % name)
    ctx.floor("DISPLAY-TOK", "operator tokens", len(tok), 20)
    # binary tokens are surrounded by single spaces (needed for `a - -1`, `a < b`)
    for d, name in bin_vs.items():
        raw = btok.get(d) or ""
        ctx.check(raw == " %s " % TOKENS_REF.get(name, "?"), "DISPLAY-TOK", name + " spacing", repr(raw),
                  "%s prints %r (binary operators are separated by single spaces)" % (name, raw), f.loc(), fn=f.name)

    # a word operator printed in front of its operand needs a separator: `NOT x`, never `NOTx` (which reads as a column name)
    uf, uS = model["UnOp"]["fn"], model["UnOp"]["S"]
    sep_writes = [1 for b_ in model["UnOp"]["blocks"] for tt in [uf.blocks[b_]["term"]] if tt["t"] == "call" and
                  re.search(r"write_(str|char)$", tt.get("callee") or "") and re.search(r"(s:' +'|c:32)$", uS.val(tt["args"][1]))]
    for d, name in un_vs.items():
        raw = utok.get(d) or ""
        if raw.strip().isalpha():
            ctx.check(raw.endswith(" ") or bool(sep_writes), "DISPLAY-TOK", name + " separator", repr(raw),
                      "%s prints %r directly in front of its operand: `NOT x` is printed as `NOTx`, which reads as a column name" % (name, raw),
                      uf.loc(), fn=uf.name, key="DISPLAY-TOK|%s|sep" % name)

    # grammar level of each operator
    glevel = {}
    for name, t in tok.items():
        kind = "unary" if name in un_vs.values() else "binary"
        key = (t, kind)
        if key in lad:
            glevel[name] = lad[key]
    if "BitXor" not in glevel and "BitOr" in glevel and "BitAnd" in glevel:
        glevel["BitXor"] = ((glevel["BitOr"][0] + glevel["BitAnd"][0]) / 2.0, "chain")
    missing = [n for n in tok if n not in glevel]
    if missing:
        ctx.anchor_missing("PREC", "grammar level for operators %s" % missing)
        return
    ATOM_LEVEL = 99

    def own(name):
        """printer's own-precedence for a child expression with top operator `name` (None = never brackets itself)"""
        arm = "BinOp" if name in bin_vs.values() else ("UnOp" if name in un_vs.values() else name)
        m = model[arm]
        if not m["opens"] or not all(m["opens"]):
            return None
        e = m["opens"][0][0]
        mm = re.fullmatch(r"\((.*) Lt p3\)", e)
        return prec_value(mm.group(1), prec_tab, name)

    def passed(name, side):
        arm = "BinOp" if name in bin_vs.values() else ("UnOp" if name in un_vs.values() else name)
        m = model[arm]
        if side >= len(m["passed"]):
            return None
        return prec_value(m["passed"][side], prec_tab, name)

    # structural sanity of the model
    for arm, nchild in (("UnOp", 1), ("BinOp", 2), ("And", 2), ("Or", 2)):
        m = model[arm]
        ctx.check(len(m["passed"]) == nchild, "PREC", "%s formats %d child(ren)" % (arm, nchild), str(m["passed"]),
                  "%s arm formats %d children, expected %d" % (arm, len(m["passed"]), nchild), f.loc(), fn=f.name)
        ctx.check(len(m["opens"]) == len(m["closes"]) and [sorted(x) for x in m["opens"]] == [sorted(x) for x in m["closes"]], "PREC",
                  "%s brackets balanced" % arm, "", "%s arm: '(' and ')' are not emitted under the same condition" % arm, f.loc(), fn=f.name)

    ASSOC = {"Add", "Mul", "BitAnd", "BitOr", "BitXor", "And", "Or"}
    ops = sorted(tok)
    n = 0
    for P in ops:
        sides = (0,) if P in un_vs.values() else (0, 1)
        lp, kp = glevel[P]
        for side in sides:
            pp = passed(P, side)
            for C in ops:
                lc, kc = glevel[C]
                c_un = C in un_vs.values()
                # does the grammar need brackets around child C in this position?
                if P in un_vs.values():
                    need = lc < lp  # operand of a unary operator must sit at the operator's own level or tighter
                else:
                    if c_un:
                        need = lc < lp  # a looser unary (NOT) under a tighter binary operator
                        if side == 0 and lc == lp:
                            need = False
                    elif side == 0:
                        need = lc < lp or (lc == lp and kp == "binary")
                    else:
                        need = lc < lp or (lc == lp and not (P == C and P in ASSOC) and not (
                            {P, C} <= {"Add", "Sub"} and P == "Add") and not ({P, C} <= ASSOC and lc == lp))
                oc = own(C)
                emits = (oc is not None and pp is not None and oc < pp)
                n += 1
                inst = "%s %s child %s" % (P, ("operand" if len(sides) == 1 else ("left", "right")[side]), C)
                if need and not emits:
                    cls = ("unary child never brackets itself" if c_un else
                           ("equal-precedence left operand of a non-associative level" if (side == 0 and lc == lp) else "bracket test too weak"))
                    ctx.violation("PREC", inst,
                                  "the grammar needs brackets around a %s (%r, level %s) as %s of %s (%r, level %s), the printer emits none "
                                  "(child's own precedence %s, precedence handed down %s): the text re-reads as a different tree or not at all"
                                  % (C, tok[C], lc, inst.split()[1], P, tok[P], lp, oc, pp),
                                  f.loc(), fn=f.name, key="PREC|%s" % cls)
                else:
                    ctx.ok("PREC", inst, "brackets %s, printer %s" % ("needed" if need else "not needed", "emits" if emits else "omits"))
    ctx.floor("PREC", "operator triples decided", n, 18 * 18 * 2 - 3 * 18)

    # BinOp::precedence ordering consistent with the grammar ladder
    names = list(bin_vs.values())
    for a in names:
        for b in names:
            pt = prec_tab.get("internal::expr::BinOp::precedence") or {}
            if not (pt.get(a) and pt.get(b)):
                continue
            pa, pb = pt[a][1], pt[b][1]
            la, lb = glevel[a][0], glevel[b][0]
            if (la < lb) != (pa < pb) or (la == lb) != (pa == pb):
                ctx.violation("PREC", "precedence(%s) vs precedence(%s)" % (a, b),
                              "BinOp::precedence orders %s (%d) and %s (%d) differently from the grammar levels (%s, %s)" % (a, pa, b, pb, la, lb),
                              f.loc(), fn="msi::internal::expr::BinOp::precedence", key="PREC|table|%s|%s" % (a, b))
    ctx.extra["prec_model"] = {k: dict(passed=v["passed"], opens=v["opens"]) for k, v in model.items()}
    ctx.extra["grammar_levels"] = {k: v[0] for k, v in glevel.items()}


# --------------------------------------------------------------------------- query Display keywords
QUERY_KW = {
    "msi::<internal::query::Delete as std::fmt::Display>::fmt": ["DELETE FROM ", " WHERE "],
    "msi::<internal::query::Insert as std::fmt::Display>::fmt": ["INSERT INTO ", " VALUES ", ", ", "(", ")"],
    "msi::<internal::query::Select as std::fmt::Display>::fmt": ["SELECT ", "*", ", ", " FROM ", " WHERE "],
    "msi::<internal::query::Update as std::fmt::Display>::fmt": ["UPDATE ", " SET ", ", ", " = ", " WHERE "],
    "msi::<internal::query::Join as std::fmt::Display>::fmt": [" INNER JOIN ", " LEFT JOIN ", " ON "],
    "msi::internal::query::Select::format_for_join": ["(", ")"],
}


def run_query_display(ctx):
    prog = ctx.prog
    ctx.rule("DISPLAY-KW", "the Display impls of Select/Join/Insert/Update/Delete emit exactly their keyword constants; Join prints INNER for "
                           "the Inner variant and LEFT for the Left variant; a sub-select with columns, a condition or a join is bracketed")
    for fname, want in QUERY_KW.items():
        if fname.startswith("msi::<internal::query::Join as"):
            continue  # checked per variant below
        f = prog.fn(fname)
        S = Sym(prog, f)
        lits = []
        for b, t in calls(prog, f, r"write_str$"):
            m = re.search(r"s:'(.*)'$", S.val(t["args"][1]))
            if m:
                lits.append(m.group(1))
        ctx.check(sorted(set(lits)) == sorted(set(want)), "DISPLAY-KW", short(fname), str(sorted(set(lits))),
                  "%s writes the literals %s, expected %s" % (short(fname), sorted(set(lits)), sorted(set(want))), f.loc(), fn=fname)
    # Join variant -> keyword, on the body specialised to each variant (merged arms / a keyword chosen by `matches!` read like separate arms)
    from ..spec import specialise
    f = prog.fn("msi::<internal::query::Join as std::fmt::Display>::fmt")
    S = Sym(prog, f)
    sw = tables.first_switch(f)
    vs = tables.enum_variants(prog, "msi", "internal::query::Join")
    if sw is None or not vs or S.val(f.blocks[sw]["term"]["discr"]) != "discr(*p1)":
        ctx.anchor_missing("DISPLAY-KW", "match on self in Join::fmt")
        return
    all_lits = set()
    for v, name in sorted(vs.items()):
        g = specialise(prog, f, "discr(*p1)", v)
        Sg = Sym(prog, g)
        domg = cfg.dominators(g)
        lits = []
        for b, tt in calls(prog, g, r"write_str$"):
            m = re.search(r"s:'(.*)'$", Sg.val(tt["args"][1]))
            if m:
                lits.append(m.group(1))
        all_lits |= set(lits)
        if name in ("Inner", "Left"):
            # the three operands are printed, in the order left, right, condition, with the join keyword between the first two and ON before the third
            pos = {}
            for b, tt in g.calls():
                if re.search(r"Try>?::branch$|FromResidual|::deref$|::as_ref$|::borrow$", cname(prog, tt)):
                    continue
                txt = " ".join(Sg.val(a) for a in tt["args"])
                for k in (0, 1, 2):
                    if re.search(r"p1@%s\.%d\b" % (name, k), txt):
                        pos.setdefault(k, len(domg[b]))
                m = re.search(r"s:'( (?:INNER|LEFT) JOIN | ON )'", txt)
                if m:
                    pos.setdefault(m.group(1).strip(), len(domg[b]))
            kw = "INNER JOIN" if name == "Inner" else "LEFT JOIN"
            seq = [pos.get(0), pos.get(kw), pos.get(1), pos.get("ON"), pos.get(2)]
            ctx.check(None not in seq and seq == sorted(seq) and len(set(seq)) == 5, "DISPLAY-KW", "Join::%s prints left, keyword, right, ON, condition in this order" % name, str(seq),
                      "Join::%s does not print its three operands in the order `left %s right ON condition` (positions %s; None = never printed): the text names a different "
                      "query or does not parse" % (name, kw, dict(zip(("left", kw, "right", "ON", "condition"), seq))), f.loc(), fn=f.name, key="DISPLAY-KW|join-seq|%s" % name)
        if name == "Inner":
            ctx.check(" INNER JOIN " in lits and " LEFT JOIN " not in lits and " ON " in lits, "DISPLAY-KW", "Join::Inner keyword", str(lits),
                      "Join::Inner prints %s" % lits, f.loc(), fn=f.name)
        if name == "Left":
            ctx.check(" LEFT JOIN " in lits and " INNER JOIN " not in lits and " ON " in lits, "DISPLAY-KW", "Join::Left keyword", str(lits),
                      "Join::Left prints %s" % lits, f.loc(), fn=f.name)
    want = QUERY_KW[f.name]
    ctx.check(sorted(all_lits) == sorted(set(want)), "DISPLAY-KW", short(f.name), str(sorted(all_lits)),
              "%s writes the literals %s, expected %s" % (short(f.name), sorted(all_lits), sorted(set(want))), f.loc(), fn=f.name)
    # format_for_join: the unbracketed return is guarded by column_names.is_empty() && condition.is_none() && Join::Table
    f = prog.fn("msi::internal::query::Select::format_for_join")
    S = Sym(prog, f)
    plain = [(b, t) for b, t in calls(prog, f, r"write_str$") if "s:'" not in S.val(t["args"][1])]
    ok = False
    for b, t in plain:
        facts = S.bool_facts_at(b)
        all_f = S.facts_at(b)
        c1 = any(truth is True and "is_empty(" in e and "column_names" in e for (e, truth, g) in facts)
        c2 = any(truth is True and "is_none(" in e and "condition" in e for (e, truth, g) in facts)
        c3 = any(e.startswith("discr(") and ".from" in e and op == "==" and v == 0 for (e, op, v, g) in all_f)
        ok = ok or (c1 and c2 and c3)
    ctx.check(ok and len(plain) == 1, "DISPLAY-KW", "format_for_join bracket condition", "bare name only for a plain table select",
              "a sub-select is printed without brackets although it has columns, a condition or a join (the three guards "
              "column_names.is_empty(), condition.is_none(), Join::Table must all dominate the bare print)", f.loc(), fn=f.name)


# --------------------------------------------------------------------------- C13
OP_ALLOWED = {
    "Eq": {"call:PartialEq::eq"}, "Ne": {"call:PartialEq::ne"}, "Lt": {"call:PartialOrd::lt"}, "Le": {"call:PartialOrd::le"},
    "Gt": {"call:PartialOrd::gt"}, "Ge": {"call:PartialOrd::ge"},
    "Add": {"AddWithOverflow", "Add", "call:wrapping_add", "call:checked_add", "call:overflowing_add"},
    "Sub": {"SubWithOverflow", "Sub", "call:wrapping_sub", "call:checked_sub", "call:overflowing_sub"},
    "Mul": {"MulWithOverflow", "Mul", "call:wrapping_mul", "call:checked_mul", "call:overflowing_mul"},
    "Div": {"Div", "call:wrapping_div", "call:checked_div", "call:overflowing_div"},
    "BitAnd": {"BitAnd"}, "BitOr": {"BitOr"}, "BitXor": {"BitXor"},
    "Shl": {"Shl", "call:wrapping_shl", "call:checked_shl", "call:overflowing_shl"},
    "Shr": {"Shr", "call:wrapping_shr", "call:checked_shr", "call:overflowing_shr"},
}
UN_ALLOWED = {
    "Neg": {"Neg", "call:wrapping_neg", "call:checked_neg", "call:overflowing_neg"},
    "BitNot": {"Not"},
    "BoolNot": {"call:to_bool", "Not"},
}
ARITH = {"Add", "Sub", "Mul", "Div", "Rem", "BitAnd", "BitOr", "BitXor", "Shl", "Shr", "AddWithOverflow", "SubWithOverflow",
         "MulWithOverflow", "Neg", "Not"}


def arm_ops(prog, f, S, blks, value_locals_only=True, _depth=0):
    """operations performed on i32 / Value operands inside an arm region"""
    out = set()
    for b in blks:
        blk = f.blocks[b]
        for s in blk["stmts"]:
            r = s["rhs"]
            if r["rv"] == "bin" and r["op"].replace("Unchecked", "") in ARITH:
                tys = [f.locals[o["pl"]["l"]] for o in r["ops"] if o.get("k") in ("copy", "move") and not o["pl"]["p"]]
                tys += [o.get("ty") for o in r["ops"] if o.get("k") == "const"]
                if "i32" in tys:
                    out.add(r["op"].replace("Unchecked", ""))
            if r["rv"] == "un" and r["op"] in ("Neg", "Not"):
                o = r["ops"][0]
                ty = f.locals[o["pl"]["l"]] if o.get("k") in ("copy", "move") and not o["pl"]["p"] else o.get("ty")
                if ty in ("i32", "bool"):
                    out.add(r["op"])
        t = blk["term"]
        if t["t"] == "call":
            n = t.get("callee") or ""
            m = re.search(r"(PartialEq::(?:eq|ne)|PartialOrd::(?:lt|le|gt|ge))$", n)
            if m:
                opn = m.group(1)
                # `b < a` is `a > b`: name the comparison by the order of the function's operands (p2 before p3)
                av = [S.val(a) for a in t["args"][:2]]
                if len(av) == 2 and re.search(r"\bp3\b", av[0]) and re.search(r"\bp2\b", av[1]) and not re.search(r"\bp2\b", av[0]):
                    opn = {"PartialOrd::lt": "PartialOrd::gt", "PartialOrd::gt": "PartialOrd::lt", "PartialOrd::le": "PartialOrd::ge", "PartialOrd::ge": "PartialOrd::le"}.get(opn, opn)
                out.add("call:" + opn)
            m = re.search(r"<impl i32>::((?:wrapping|checked|overflowing|saturating)_\w+)$", n)
            if m:
                out.add("call:" + m.group(1))
            if n.endswith("Value::to_bool") or cname(prog, t).endswith("Value::to_bool"):
                out.add("call:to_bool")
            if "as std::ops::Add<&str>>::add" in (t.get("resolved") or ""):
                out.add("call:string_add")
            # an integer method handed over as a function value: int_arith(a, b, i32::wrapping_sub)
            for a in t["args"]:
                m = re.search(r"<impl i32>::((?:wrapping|checked|overflowing|saturating)_\w+)$", a.get("fn") or "") if a.get("k") == "const" else None
                if m:
                    out.add("call:" + m.group(1))
        for s in blk["stmts"]:
            for a in s["rhs"].get("ops", []):
                m = re.search(r"<impl i32>::((?:wrapping|checked|overflowing|saturating)_\w+)$", a.get("fn") or "") if a.get("k") == "const" else None
                if m:
                    out.add("call:" + m.group(1))
    # operations inside closures built in the region (an operator handed to a shared helper: int_arith(a, b, |x, y| x.wrapping_sub(y)))
    if _depth == 0:
        for b, c in closure_sites(prog, f):
            if b in blks:
                out |= arm_ops(prog, c, Sym(prog, c), {bl["id"] for bl in c.blocks if not bl["cleanup"]}, value_locals_only, _depth=1)
    return out


def run_c13(ctx):
    prog = ctx.prog
    ctx.rule("OP-TABLE", "per BinOp/UnOp variant, the operation performed on the two integers in its eval arm belongs to the allowed set for "
                         "that variant (Add -> +/wrapping_add/checked_add ..., Le -> PartialOrd::le, ...), nothing else arithmetic happens in "
                         "the arm, and string addition exists only under Add")
    for fname, enum, allowed in (("msi::internal::expr::BinOp::eval", BINOP, OP_ALLOWED), ("msi::internal::expr::UnOp::eval", UNOP, UN_ALLOWED)):
        f = prog.fn(fname)
        S = Sym(prog, f)
        dom = cfg.dominators(f)
        sw = tables.first_switch(f)
        vs = tables.enum_variants(prog, "msi", enum)
        if sw is None or not vs:
            ctx.anchor_missing("OP-TABLE", "match in %s" % fname)
            continue
        t = f.blocks[sw]["term"]
        arms = {vs[v]: tgt for v, tgt in t["cases"] if v in vs}
        ctx.floor("OP-TABLE", "arms of %s" % short(fname), len(arms), len(vs))
        for name, tgt in sorted(arms.items()):
            blks = arm_blocks(f, dom, tgt)
            ops = arm_ops(prog, f, S, blks)
            core = {o for o in ops if o != "call:string_add"}
            # comparison helpers produced by overflow checks etc. are not i32 arithmetic in the above filter
            want = allowed.get(name, set())
            extra = {o for o in core if o not in want and o not in ("Not",) or (o == "Not" and name not in ("BitNot", "BoolNot"))}
            has = bool(core & want)
            ctx.check(has and not extra, "OP-TABLE", "%s arm of %s" % (name, short(fname)), "performs %s" % sorted(ops),
                      "the %s arm performs %s; allowed for %s: %s" % (name, sorted(ops), name, sorted(want)), f.loc(), fn=fname,
                      key="OP-TABLE|%s" % name)
            if fname.endswith("BinOp::eval"):
                ctx.check(("call:string_add" in ops) == (name == "Add"), "OP-TABLE", "%s string concatenation" % name,
                          "present" if name == "Add" else "absent", "string concatenation %s in the %s arm" % (
                              "missing" if name == "Add" else "present", name), f.loc(), fn=fname)
    # FOLD-SAME
    ctx.rule("FOLD-SAME", "constant folding (Expr::unop / Expr::binop) calls the very same UnOp::eval / BinOp::eval that Ast::eval calls, so folded "
                          "and lazy results cannot differ")
    ev = prog.fn("msi::internal::expr::Ast::eval")
    for folder, target in (("msi::internal::expr::Expr::unop", "msi::internal::expr::UnOp::eval"), ("msi::internal::expr::Expr::binop", "msi::internal::expr::BinOp::eval")):
        f = prog.fn(folder)
        a = [1 for b, t in f.calls() if cname(prog, t) == target]
        bcalls = [1 for b, t in ev.calls() if cname(prog, t) == target]
        ctx.check(len(a) == 1 and len(bcalls) >= 1, "FOLD-SAME", "%s and Ast::eval both call %s" % (short(folder), short(target)), "",
                  "%s calls %s %d time(s), Ast::eval %d time(s)" % (short(folder), short(target), len(a), len(bcalls)), f.loc(), fn=folder)
        # folding only when all operands are literals: the eval call is dominated by discriminant tests for Literal
        S = Sym(prog, f)
        for b, t in f.calls():
            if cname(prog, t) == target:
                lit = [e for (e, op, v, g) in S.facts_at(b) if e.startswith("discr(") and op == "==" and v == 0]
                want = 1 if folder.endswith("unop") else 2
                ctx.check(len(lit) >= want, "FOLD-SAME", "%s folds only literals" % short(folder), "%d Literal tests dominate" % len(lit),
                          "folding in %s is not guarded by Literal tests on all operands (%d found)" % (short(folder), len(lit)), f.loc(t["sp"]), fn=folder)
    # every public constructor goes through unop/binop or builds And/Or
    ctx.rule("TRUTH", "Value::to_bool has exactly the three documented arms: Null -> false, Int(n) -> n != 0, Str(s) -> !s.is_empty(); "
                      "from_bool yields Int(1)/Int(0)")
    f = prog.fn("msi::internal::value::Value::to_bool")
    S = Sym(prog, f)
    tab = tables.enum_table(prog, f, "internal::value::Value")
    if not tab:
        ctx.anchor_missing("TRUTH", "match in Value::to_bool")
    else:
        d = tab.get("Null")
        ctx.check(d == ("int", 0), "TRUTH", "Null", "false", "Null is %s" % (d,), f.loc(), fn=f.name)
        d = tab.get("Int")
        ctx.check(d is not None and d[0] == "expr" and re.fullmatch(r"\(\*?p1@Int\.0 Ne c:0\)", d[1]) is not None, "TRUTH", "Int(n)", "n != 0",
                  "Int arm computes %s" % (d,), f.loc(), fn=f.name)
        d = tab.get("Str")
        ctx.check(d is not None and d[0] == "expr" and re.fullmatch(r"\(Not std::string::String::is_empty\(&\*?p1@Str\.0\)\)", d[1]) is not None,
                  "TRUTH", "Str(s)", "!s.is_empty()", "Str arm computes %s" % (d,), f.loc(), fn=f.name)
    f = prog.fn("msi::internal::value::Value::from_bool")
    S = Sym(prog, f)
    sw = tables.first_switch(f)
    if sw is None:
        # branch-free spelling: Value::Int(i32::from(b)) / Value::Int(b as i32); a bool converts to exactly 1 or 0
        r0 = S.local(0)
        ctx.check(re.fullmatch(r"internal::value::Value::Int\{\(p1 as i32\)\}", r0) is not None, "TRUTH", "from_bool", "Int(b as i32)",
                  "from_bool computes %s, neither the true->Int(1)/false->Int(0) branch nor Int(b as i32)" % r0, f.loc(), fn=f.name)
    else:
        tab, discr = tables.switch_table(prog, f)
        t_arm = tab.get("otherwise")
        f_arm = tab.get(0)
        ctx.check(discr == "p1" and t_arm == ("variant", "internal::value::Value", "Int", [("int", 1)]) and
                  f_arm == ("variant", "internal::value::Value", "Int", [("int", 0)]), "TRUTH", "from_bool", "true -> Int(1), false -> Int(0)",
                  "from_bool maps true -> %s, false -> %s" % (t_arm, f_arm), f.loc(), fn=f.name)
    # short-circuit structure of And / Or in Ast::eval
    ctx.rule("SHORT", "Ast::eval: And evaluates its right operand only when the left is true and otherwise yields false; Or evaluates its right "
                      "operand only when the left is false and otherwise yields true; both normalise through from_bool(to_bool(..))")
    S = Sym(prog, ev)
    dom = cfg.dominators(ev)
    sw = tables.first_switch(ev)
    vs = tables.enum_variants(prog, "msi", AST)
    t = ev.blocks[sw]["term"]
    for v, tgt in t["cases"]:
        name = vs.get(v)
        if name not in ("And", "Or"):
            continue
        blks = arm_blocks(ev, dom, tgt)
        rec = sorted([(b, tt) for b, tt in ev.calls() if b in blks and cname(prog, tt) == ev.name], key=lambda x: len(dom[x[0]]))
        fb = [(b, tt) for b, tt in ev.calls() if b in blks and cname(prog, tt).endswith("Value::from_bool")]
        ok = len(rec) == 2 and len(fb) in (1, 2)
        detail = ""
        if ok:
            second = rec[1][0]
            facts = S.bool_facts_at(second)
            tb = [(e, truth) for (e, truth, g) in facts if "Value::to_bool" in e]
            want_truth = (name == "And")
            ok = any(truth is want_truth for e, truth in tb)
            consts = [tt["args"][0].get("int") for b, tt in fb if tt["args"][0].get("k") == "const"]
            # `from_bool(a && b)`: the constant of the short-circuit edge is assigned to the local that from_bool receives
            from ..flow import derived_locals
            for b, tt in fb:
                a0 = tt["args"][0]
                if a0.get("pl") and not a0["pl"]["p"]:
                    tgt = a0["pl"]["l"]
                    for bb in blks:
                        for st in ev.blocks[bb]["stmts"]:
                            o = st["rhs"].get("ops", [{}])[0] if st["rhs"]["rv"] == "use" else {}
                            if o.get("k") == "const" and "int" in o and not st["lhs"]["p"] and tgt in derived_locals(ev, {st["lhs"]["l"]}):
                                consts.append(o["int"])
            ok = ok and sorted(set(consts)) == [0 if name == "And" else 1]
            # the right operand's value is normalised: eval(right) -> to_bool -> from_bool (never returned raw)
            d1 = derived_locals(ev, {rec[1][1]["dest"]["l"]})
            tbs = [tt for b, tt in ev.calls() if b in blks and cname(prog, tt).endswith("Value::to_bool") and any(a.get("pl") and a["pl"]["l"] in d1 for a in tt["args"])]
            norm = False
            for tt in tbs:
                d2 = derived_locals(ev, {tt["dest"]["l"]})
                if any(a.get("pl") and a["pl"]["l"] in d2 for b, ft in fb for a in ft["args"]):
                    norm = True
            ok = ok and norm
            detail += "; right operand normalised through to_bool/from_bool: %s" % norm
            detail = "second operand under to_bool(left) == %s; constant result %s" % (want_truth, consts)
        ctx.check(ok, "SHORT", "Ast::%s" % name, detail,
                  "Ast::%s does not have the documented short-circuit shape (%d recursive evals, %d from_bool; %s)" % (name, len(rec), len(fb), detail),
                  ev.loc(), fn=ev.name)


def op_typed(ctx, rule="OP-TYPED"):
    """C13: results are typed by both operands; constructors fold only literals and build nothing else"""
    prog = ctx.prog
    ctx.rule(rule, "in BinOp::eval's arithmetic, bitwise and shift arms an Int result is produced only when BOTH operands are Int (a Str result only when both are Str, under Add); every other "
                   "operand combination yields Null; UnOp::eval's Neg/BitNot yield Int only for an Int operand. Expr::unop / Expr::binop either fold Literal operands through eval or wrap "
                   "the operands unchanged - no other rewriting at construction")
    f = prog.fn("msi::internal::expr::BinOp::eval")
    S = Sym(prog, f)
    vs = tables.enum_variants(prog, "msi", BINOP)
    arith = {d for d, n in vs.items() if n in ("Add", "Sub", "Mul", "Div", "BitAnd", "BitOr", "BitXor", "Shl", "Shr")}
    n = 0
    # locals whose value is moved into the return place (the return place of an inlined helper, a temporary)
    ret = {0}
    grew = True
    while grew:
        grew = False
        for bl in f.blocks:
            for s in bl["stmts"]:
                if s["lhs"]["l"] in ret and not s["lhs"]["p"] and s["rhs"]["rv"] == "use":
                    o = s["rhs"]["ops"][0]
                    if o.get("pl") and not o["pl"]["p"] and o["pl"]["l"] not in ret:
                        ret.add(o["pl"]["l"])
                        grew = True
    for bl in f.blocks:
        if bl["cleanup"]:
            continue
        for s in bl["stmts"]:
            r = s["rhs"]
            if s["lhs"]["l"] in ret and not s["lhs"]["p"] and r["rv"] == "agg" and (r.get("adt") or "").endswith("value::Value") and r.get("variant") in ("Int", "Str"):
                facts = {e: tr for (e, tr, g) in S.bool_facts_at(bl["id"])}
                arm = facts.get("discr(*p1)")
                if not arm or arm[1] not in arith:
                    continue
                n += 1
                want = ("==", 1) if r["variant"] == "Int" else ("==", 2)
                ok = facts.get("discr(p2)") == want and facts.get("discr(p3)") == want
                if r["variant"] == "Str":
                    ok = ok and vs.get(arm[1]) == "Add"
                ctx.check(ok, rule, "%s arm: %s result needs two %s operands" % (vs.get(arm[1]), r["variant"], r["variant"]), "",
                          "BinOp::%s produces a %s result although not both operands are known to be %s (facts %s): operands of the wrong type must give null" % (
                              vs.get(arm[1]), r["variant"], r["variant"], {k: v for k, v in facts.items() if k in ("discr(p2)", "discr(p3)")}), f.loc(s["sp"]), fn=f.name,
                          key="%s|%s|%s" % (rule, vs.get(arm[1]), r["variant"]))
    # the same result built through the constructor passed as a function (`checked_shl(..).map_or(Value::Null, Value::Int)`)
    for b, t in f.calls():
        ctor = [a for a in t["args"] if a.get("k") == "const" and (a.get("fn") or "").endswith("value::Value::Int")]
        if not ctor:
            continue
        facts = {e: tr for (e, tr, g) in S.bool_facts_at(b)}
        arm = facts.get("discr(*p1)")
        if not arm or arm[1] not in arith:
            continue
        n += 1
        ok = facts.get("discr(p2)") == ("==", 1) and facts.get("discr(p3)") == ("==", 1)
        ctx.check(ok, rule, "%s arm: Int result needs two Int operands" % vs.get(arm[1]), "", "BinOp::%s produces an Int result (through the Value::Int constructor) although not both "
                  "operands are known to be Int" % vs.get(arm[1]), f.loc(t["sp"]), fn=f.name, key="%s|%s|Int" % (rule, vs.get(arm[1])))
    ctx.floor(rule, "typed results in BinOp::eval", n, 10)
    g = prog.fn("msi::internal::expr::UnOp::eval")
    Sg = Sym(prog, g)
    uv = tables.enum_variants(prog, "msi", UNOP)
    for bl in g.blocks:
        if bl["cleanup"]:
            continue
        for s in bl["stmts"]:
            r = s["rhs"]
            if s["lhs"]["l"] == 0 and r["rv"] == "agg" and (r.get("adt") or "").endswith("value::Value") and r.get("variant") == "Int":
                facts = {e: tr for (e, tr, gg) in Sg.bool_facts_at(bl["id"])}
                arm = facts.get("discr(*p1)")
                ok = facts.get("discr(p2)") == ("==", 1)
                ctx.check(ok, rule, "UnOp %s: Int result needs an Int operand" % (uv.get(arm[1]) if arm else "?"), "", "UnOp::eval produces an Int for a non-Int operand", g.loc(s["sp"]), fn=g.name)
    for folder, wrap, nargs in (("msi::internal::expr::Expr::unop", "UnOp", 1), ("msi::internal::expr::Expr::binop", "BinOp", 2)):
        h = prog.fn(folder)
        Sh = Sym(prog, h)
        built = sorted({s["rhs"]["variant"] for bl in h.blocks if not bl["cleanup"] for s in bl["stmts"] if s["rhs"]["rv"] == "agg" and (s["rhs"].get("adt") or "").endswith("expr::Ast")})
        sws = sorted({Sh.val(bl["term"]["discr"]) for bl in h.blocks if not bl["cleanup"] and bl["term"]["t"] == "switch"})
        okd = all(re.fullmatch(r"discr\((p2|p3|tuple\{p2,p3\}\.[01])\)", x) or x.startswith("discr(call@") or re.fullmatch(r"_\d+", x) for x in sws)
        cmpc = [short(cname(prog, t)) for b, t in h.calls() if re.search(r"PartialEq|PartialOrd", t.get("callee") or "")]
        ctx.check(built == sorted(["Literal", wrap]) and okd and not cmpc, rule, "%s builds Literal(eval(..)) or %s(..) only" % (short(folder), wrap), "builds %s" % built,
                  "%s builds %s, branches on %s and compares with %s: constructors must only fold literals or wrap their operands (any other simplification makes built and lazily "
                  "evaluated expressions differ)" % (short(folder), built, sws, cmpc), h.loc(), fn=folder, key="%s|%s" % (rule, short(folder)))
    # the leaf constructors wrap their argument unchanged, whatever its value: Expr::string("") is the empty STRING (not null: '' = NULL is 0, '' + 'a' is 'a'),
    # Expr::integer(0) the integer 0, Expr::col(n) the column n
    E = r"internal::expr::Expr::Expr\{internal::expr::Ast::%s\}\}"
    ARG = r"(?:[^{}()]*\(p1\)|p1)"
    for cons, pat in (("string", E % (r"Literal\{internal::value::Value::Str\{%s\}" % ARG)), ("integer", E % r"Literal\{internal::value::Value::Int\{p1\}"),
                      ("col", E % (r"Column\{%s" % ARG)), ("null", E % r"Literal\{internal::value::Value::Null\{\}")):
        h = prog.fn("msi::internal::expr::Expr::" + cons)
        Sh = Sym(prog, h)
        v = Sh.local(0)
        branches = [Sh.val(bl["term"]["discr"]) for bl in h.blocks if not bl["cleanup"] and bl["term"]["t"] == "switch"]
        ctx.check(re.fullmatch(pat, v) is not None and not branches, rule, "Expr::%s wraps its argument unchanged" % cons, v[:120],
                  "Expr::%s builds %s%s: a leaf constructor must yield exactly its argument as a literal / column reference for every argument value (an empty string is a "
                  "string, not null)" % (cons, v[:160], " and branches on %s" % branches if branches else ""), h.loc(), fn=h.name, key="%s|leaf|%s" % (rule, cons))
    # the logical constructors build their node and nothing else: normalisation to 0/1 happens in Ast::eval, so any construction-time shortcut
    # (returning an operand for a constant left side) changes the value of the expression
    for cons, node in (("msi::internal::expr::Expr::and", "And"), ("msi::internal::expr::Expr::or", "Or")):
        h = prog.fn(cons)
        built = sorted({s["rhs"]["variant"] for bl in h.blocks if not bl["cleanup"] for s in bl["stmts"] if s["rhs"]["rv"] == "agg" and (s["rhs"].get("adt") or "").endswith("expr::Ast")})
        branches = [Sym(prog, h).val(bl["term"]["discr"]) for bl in h.blocks if not bl["cleanup"] and bl["term"]["t"] == "switch"]
        branches = [x for x in branches if not re.fullmatch(r"_\d+", x)]
        ctx.check(built == [node] and not branches, rule, "%s builds Ast::%s only" % (short(cons), node), "", "%s builds %s and branches on %s: the constructor must wrap both operands in Ast::%s "
                  "unconditionally (evaluation normalises the result to 0/1; a shortcut that returns an operand does not)" % (short(cons), built, branches, node), h.loc(), fn=cons, key="%s|%s" % (rule, short(cons)))
