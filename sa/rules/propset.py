"""C10: one measure, one conversion, agreeing type tables and sizes in the property-set codec."""
import re

from .. import cfg, tables
from ..callgraph import CallGraph
from ..lib import cname, has_fact, short, symcalls
from ..sym import Sym
from .codec import io_width, paths_bytes

PS = "msi::internal::propset::"
TYPE_REF = {"Empty": 0, "Null": 1, "I2": 2, "I4": 3, "I1": 16, "LpStr": 30, "FileTime": 64}


def run(ctx, only_type_id=False):
    prog = ctx.prog
    fw = prog.fn(PS + "PropertyValue::write")
    fr = prog.fn(PS + "PropertyValue::read")
    fs = prog.fn(PS + "PropertyValue::size_including_padding")
    vs = tables.enum_variants(prog, "msi", "internal::propset::PropertyValue")
    Sw, Sr = Sym(prog, fw), Sym(prog, fr)

    R = "TYPE-ID"
    ctx.rule(R, "the (variant <-> type number) tables of PropertyValue::write (first write_u32 constant per arm) and PropertyValue::read (switch on the type "
                "number, variant built in each arm) are equal and equal the format's {Empty 0, Null 1, I2 2, I4 3, I1 16, LpStr 30, FileTime 64}")
    wtab = {}
    dom = cfg.dominators(fw)
    for b, n, args, t in sorted(symcalls(prog, fw, Sw), key=lambda c: len(dom[c[0]])):
        if n.endswith("write_u32"):
            d = [tr for (e, tr, g) in Sw.bool_facts_at(b) if e == "discr(*p1)"]
            if d and vs.get(d[0][1]) not in wtab and args[1].startswith("c:"):
                wtab[vs[d[0][1]]] = int(args[1][2:])
    if len(wtab) < len(vs):
        # the tag written once up front from a `type_number()` table (inlined), or arms merged: read it per variant on the body specialised to that variant
        from ..spec import specialise, fold
        sw0 = tables.first_switch(fw)
        dexpr = Sw.val(fw.blocks[sw0]["term"]["discr"]) if sw0 is not None else None
        if dexpr and re.fullmatch(r"discr\(\**p1\)", dexpr):
            for v_, name_ in vs.items():
                g_ = specialise(prog, fw, dexpr, v_)
                Sg_ = Sym(prog, g_)
                domg_ = cfg.dominators(g_)
                w32 = sorted([(len(domg_[b_]), fold(Sg_.val(t_["args"][1]))) for b_, t_ in g_.calls() if (t_.get("callee") or "").endswith("write_u32") and b_ in domg_])
                if w32 and re.fullmatch(r"c:\d+", w32[0][1]):
                    wtab[name_] = int(w32[0][1][2:])
    rtab = {}
    rarm = {}
    domr = cfg.dominators(fr)
    for bl in fr.blocks:
        if bl["cleanup"]:
            continue
        t = bl["term"]
        if t["t"] == "switch" and re.search(r"read_u32.*|branch@Continue\.0$", Sr.val(t["discr"])) and len(t["cases"]) >= 5:
            for v, tg in t["cases"]:
                region = {b for b in domr if tg in domr[b]}
                for b in region:
                    for s in fr.blocks[b]["stmts"]:
                        r = s["rhs"]
                        if r["rv"] == "agg" and (r.get("adt") or "").endswith("PropertyValue"):
                            rarm.setdefault(v, set()).add(r["variant"])
    for v, names in sorted(rarm.items()):
        # one type number, one variant: an arm that can also yield another variant (say Empty for an all-zero FILETIME) loses that value on reopen
        ctx.check(len(names) == 1, R, "reader arm for type %d" % v, "builds only %s" % sorted(names), "the reader's arm for type %d can build %s: some stored values of that type "
                  "are read back as a different kind of value" % (v, sorted(names)), fr.loc(), fn=fr.name, key="%s|arm|%d" % (R, v))
        for nm in names:
            if len(names) == 1 or TYPE_REF.get(nm) == v:
                rtab[nm] = v
    for name in sorted(set(vs.values())):
        ok = wtab.get(name) == rtab.get(name) == TYPE_REF.get(name)
        ctx.check(ok, R, name, "type %s" % wtab.get(name), "PropertyValue::%s: writer uses type %s, reader %s, format %s" % (name, wtab.get(name), rtab.get(name), TYPE_REF.get(name)),
                  fw.loc(), fn=fw.name, key="%s|%s" % (R, name))
    ctx.floor(R, "PropertyValue variants", len(vs), 7)
    if only_type_id:
        return
    header_tables(ctx)
    summary_new(ctx)

    R = "SIZE-1"
    ctx.rule(R, "for each fixed-size variant, the bytes emitted by its write arm on every success path equal its size_including_padding entry and are a "
                "multiple of 4; the string arm pads the encoded length + terminator to a multiple of 4")
    stab = tables.enum_table(prog, fs, "internal::propset::PropertyValue")
    for d, name in sorted(vs.items()):
        if name == "LpStr":
            continue
        wb = paths_bytes(prog, fw, {"discr(*p1)": d})
        sz = stab.get(name)
        ok = sz is not None and sz[0] == "int" and wb == {sz[1]} and sz[1] % 4 == 0
        ctx.check(ok, R, name, "writes %s, size entry %s" % (sorted(wb, key=str), sz), "PropertyValue::%s: write emits %s bytes, size_including_padding says %s" % (name, sorted(wb, key=str), sz),
                  fw.loc(), fn=fw.name, key="%s|%s" % (R, name))
    # reader consumes type word + payload for fixed variants (no padding read needed: properties are located by offset)
    lp = [c for c in symcalls(prog, fw, Sw) if ("==", [d for d, n in vs.items() if n == "LpStr"][0]) in [tr for (e, tr, g) in Sw.bool_facts_at(c[0]) if e == "discr(*p1)"]]
    lenw = [c for c in lp if c[1].endswith("write_u32") and "CodePage::encode" in c[2][1]]
    ctx.check(len(lenw) == 1 and re.search(r"Vec::<T, A>::len\(&call@\d+:internal::codepage::CodePage::encode\) Add! c:1\)", lenw[0][2][1]) is not None, R,
              "LpStr length word = encoded length + terminator", "", "LpStr length word is %s" % [c[2][1] for c in lenw], fw.loc(), fn=fw.name)
    rng = [c for c in lp if "Range::Range{c:0," in " ".join(c[2])]
    padexpr = rng[0][2][0] if rng else ""
    # round up to a multiple of four: ((len + 3) >> 2) << 2, or (len + 3) & !3
    ctx.check(("Add! c:3).0 Shr c:2) Shl c:2)" in padexpr or "Add! c:3).0 BitAnd (Not c:3))" in padexpr or "Add! c:3).0 BitAnd c:4294967292)" in padexpr) and "Sub!" in padexpr, R, "LpStr padding to a multiple of 4", "",
              "LpStr padding count is not ((len+3)>>2<<2) - len: %s" % padexpr[:160], fw.loc(), fn=fw.name)

    R = "MEAS-1"
    ctx.rule(R, "every length that reaches the section size or a property offset in PropertySet::write derives from the same bytes that are written: no function "
                "reachable from PropertySet::write measures String::len / str::len of an LpStr payload (the payload is written code-page-encoded)")
    w = prog.fn(PS + "PropertySet::write")
    cg = CallGraph(prog)
    reach = [prog.fns[i] for i in cg.closure([w]) if prog.fns[i].crate == "msi" and prog.fns[i].file == "src/internal/propset.rs"]
    ctx.floor(R, "propset functions reachable from PropertySet::write", len(reach), 3)
    for g in sorted(reach, key=lambda x: x.name):
        S = Sym(prog, g)
        hits = []
        for bl in g.blocks:
            if bl["cleanup"]:
                continue
            for s in bl["stmts"]:
                for o in s["rhs"].get("ops", []):
                    v = S.val(o)
                    if re.search(r"(String::len|<impl str>::len)\([^()]*@LpStr", v):
                        hits.append((bl["id"], v))
            t = bl["term"]
            if t["t"] == "call":
                for a in t["args"]:
                    v = S.val(a)
                    if re.search(r"(String::len|<impl str>::len)\([^()]*@LpStr", v):
                        hits.append((bl["id"], v))
                n = t.get("callee") or ""
                if re.search(r"(String::len|<impl str>::len)$", n) and "@LpStr" in S.val(t["args"][0]):
                    hits.append((bl["id"], S.val(t["args"][0])))
        ctx.check(not hits, R, short(g.name), "does not measure the UTF-8 length of a string property",
                  "%s, reachable from PropertySet::write, measures the UTF-8 length of an LpStr payload (%s) while PropertyValue::write emits the code-page-encoded "
                  "bytes: offsets and section size are wrong whenever the two lengths pad differently" % (short(g.name), (hits[0][1][:120] if hits else '')),
                  g.loc(), fn=g.name, key="%s|%s" % (R, short(g.name)))

    R = "CAST-1"
    ctx.rule(R, "the code page id is stored as `id() as i16` (65001 does not fit), so every CodePage::from_id whose argument comes from the i16 payload of "
                "PropertyValue::I2 must go through u16 first (no sign extension)")
    n = 0
    for g in prog.fns.values():
        if g.crate != "msi" or g.file != "src/internal/propset.rs":
            continue
        S = Sym(prog, g)
        for b, nme, args, t in symcalls(prog, g, S):
            if nme.endswith("CodePage::from_id") and "@I2.0" in args[0]:
                n += 1
                ctx.check(re.search(r"@I2\.0 as u16\) as i32\)", args[0]) is not None, R, "%s: from_id(%s)" % (short(g.name), args[0]), "zero-extended",
                          "%s converts the stored i16 code page id with %s: 65001 (UTF-8) is stored as -535 and sign-extends to an unknown id, so the cached code page "
                          "is not updated" % (short(g.name), args[0]), g.loc(t["sp"]), fn=g.name, key="%s|%s" % (R, short(g.name)))
    ctx.floor(R, "from_id calls on an I2 payload", n, 2)
    g = prog.fn(PS + "PropertySet::set_codepage")
    cs = [c for c in symcalls(prog, g) if c[1].endswith("PropertySet::set")]
    ctx.check(len(cs) == 1 and cs[0][2][1] == "c:1" and "PropertyValue::I2{(internal::codepage::CodePage::id(&p2) as i16)}" in cs[0][2][2], R, "set_codepage stores I2(id as i16) under property 1", "",
              "set_codepage stores %s" % [c[2] for c in cs], g.loc(), fn=g.name)
    if len(cs) == 1:
        Sg2 = Sym(prog, g)
        cond = [(e[:60], tr) for (e, tr, gg) in Sg2.bool_facts_at(cs[0][0]) if isinstance(tr, bool)]
        ctx.check(not cond, R, "set_codepage always stores the property", "", "set_codepage stores the code page property only under the condition %s: a summary that stays on the cached page is "
                  "saved without property 1, and an independent reader decodes its strings with another default" % cond, g.loc(), fn=g.name, key=R + "|always")

    R = "HDR-1"
    ctx.rule(R, "PropertySet::write: the declared section offset (48) equals the bytes emitted before the section; the section header constant 8 and the per-property "
                "8 equal the bytes of (size, count) and (name, offset); read() seeks to section_offset + offset for every property and for the code page first")
    S = Sym(prog, w)
    dom = cfg.dominators(w)
    ios = []
    for b, nme, args, t in symcalls(prog, w, S):
        wd = io_width(t)
        if wd is None and nme == "std::io::Write::write_all":
            m = re.fullmatch(r"&\*?<?.*?p1\.(\w+)>?.*", args[1])
            fld = re.search(r"p1\.(\w+)", args[1])
            if fld:
                a = prog.adts["msi::internal::propset::PropertySet"]["variants"][0]["fields"]
                ty = dict((x[0], x[1]) for x in a).get(fld.group(1), "")
                mm = re.fullmatch(r"\[u8; (\d+)\]", ty)
                wd = int(mm.group(1)) if mm else None
        if wd is not None:
            ios.append((len(dom[b]), b, wd, args[1] if len(args) > 1 else ""))
    ios.sort()
    total = 0
    seen48 = False
    for (_, b, wd, a) in ios:
        total += wd
        if a == "c:48":
            seen48 = True
            break
    ctx.check(seen48 and total == 48, R, "section offset", "48 = bytes before the section", "the section offset field says 48 but %d bytes are emitted up to and including it" % total, w.loc(), fn=w.name)
    binit = [S.val(o) for bl in w.blocks if not bl["cleanup"] for s in bl["stmts"] if s["rhs"]["rv"] == "bin" and s["rhs"]["op"].startswith("Mul") for o in s["rhs"]["ops"]]
    ctx.check("c:8" in binit, R, "8 bytes per property entry", "", "per-property entry size is not 8: %s" % binit, w.loc(), fn=w.name)
    loops = cfg.natural_loops(w)
    per_entry = 0
    for h, blks in loops.items():
        ws = [io_width(t) for b, t in w.calls() if b in blks and io_width(t)]
        if len(ws) == 2:
            per_entry = sum(ws)
    ctx.check(per_entry == 8, R, "(name, offset) entry is two u32", "", "the per-property loop writes %d bytes per entry" % per_entry, w.loc(), fn=w.name)
    r = prog.fn(PS + "PropertySet::read")
    Srd = Sym(prog, r)
    seeks = [c for c in symcalls(prog, r, Srd) if c[1].endswith("Seek::seek")]
    adds = [c[2][1] for c in seeks]
    real_adds = [a for a in adds if "Add!" in a and not re.search(r"Add! \(?c:0( as u64\))?\)", a)]
    ctx.check(len(seeks) == 3 and len(real_adds) == 2, R, "read() seeks to section_offset (+ offset)", "", "read() seeks: %s" % [a[:80] for a in adds], r.loc(), fn=r.name)


SUMMARY_IDS = {"title": 2, "subject": 3, "author": 4, "comments": 6, "uuid": 9, "creation_time": 12, "word_count": 15, "creating_application": 18}
SUMMARY_TYPES = {"title": "LpStr", "subject": "LpStr", "author": "LpStr", "comments": "LpStr", "uuid": "LpStr", "creation_time": "FileTime", "word_count": "I4",
                 "creating_application": "LpStr"}
TEMPLATE = 7
SI = "msi::internal::summary::SummaryInfo::"


def summary_ids(ctx, rule="PROP-ID"):
    prog = ctx.prog
    ctx.rule(rule, "for each summary property the getter reads, the setter writes and the clearer removes the same property id, equal to the format's (title 2, subject 3, "
                   "author 4, comments 6, template 7, revision/uuid 9, creation time 12, word count 15, creating application 18), with the same value type on both sides")
    for name, pid in sorted(SUMMARY_IDS.items()):
        got = {}
        for role, fname in (("get", name), ("set", "set_" + name), ("clear", "clear_" + name)):
            f = prog.fn(SI + fname)
            S = Sym(prog, f)
            for b, n, args, t in symcalls(prog, f, S):
                m = re.search(r"PropertySet::(get|set|remove)$", n)
                if m and re.fullmatch(r"c:\d+", args[1]):
                    got[role] = (m.group(1), int(args[1][2:]), args[2] if len(args) > 2 else "")
        ok = got.get("get", ("", -1))[:2] == ("get", pid) and got.get("set", ("", -1))[:2] == ("set", pid) and got.get("clear", ("", -1))[:2] == ("remove", pid)
        ctx.check(ok, rule, name, "id %d" % pid, "summary property %s: getter/setter/clearer use %s, the format's id is %d" % (name, {k: v[:2] for k, v in got.items()}, pid),
                  key="%s|%s" % (rule, name))
        if ok:
            ty = SUMMARY_TYPES[name]
            wt = "PropertyValue::%s{" % ty in got["set"][2]
            g = prog.fn(SI + name)
            rt = any(s["rhs"]["rv"] == "discr" or True for bl in g.blocks for s in bl["stmts"])
            Sg = Sym(prog, g)
            vs = {v["idx"]: v["name"] for v in prog.adts["msi::internal::propset::PropertyValue"]["variants"]}
            arms = [vs.get(v) for bl in g.blocks if not bl["cleanup"] and bl["term"]["t"] == "switch" and "@Some.0)" in Sg.val(bl["term"]["discr"]) for v, tg in bl["term"]["cases"]]
            ctx.check(wt and arms == [ty], rule, name + " value type", ty, "summary property %s is written as %s and read as %s, expected %s" % (name, got["set"][2][:50], arms, ty), key="%s|type|%s" % (rule, name))
    R = "TEMPLATE-1"
    ctx.rule(R, "architecture and languages share the template property (7): nobody removes property 7; set_arch and set_languages read the existing template and write a value "
                "derived from both the new half and the old other half; clear_arch / clear_languages go through set_arch / set_languages")
    from ..flow import derived_locals
    for f in prog.fns.values():
        if f.crate == "msi" and f.file == "src/internal/summary.rs":
            S = Sym(prog, f)
            for b, n, args, t in symcalls(prog, f, S):
                if n.endswith("PropertySet::remove") and args[1] == "c:%d" % TEMPLATE:
                    ctx.violation(R, "%s removes the template property" % short(f.name), "%s removes property 7, which also holds the %s" % (
                        short(f.name), "languages" if "arch" in f.name else "architecture"), f.loc(t["sp"]), fn=f.name, key="%s|remove|%s" % (R, short(f.name)))
    for fname, other in (("set_arch", "languages"), ("set_languages", "architecture")):
        f = prog.fn(SI + fname)
        S = Sym(prog, f)
        cs = symcalls(prog, f, S)
        gets = [c for c in cs if c[1].endswith("PropertySet::get") and c[2][1] == "c:%d" % TEMPLATE]
        sets = [c for c in cs if c[1].endswith("PropertySet::set") and c[2][1] == "c:%d" % TEMPLATE]
        ok = len(gets) == 1 and len(sets) == 1
        if ok:
            D = derived_locals(f, {gets[0][3]["dest"]["l"]}, through_calls=lambda t: True)
            a = sets[0][3]["args"][2]
            ok = a.get("pl") and a["pl"]["l"] in D
            # and from the new half (a parameter)
            P = derived_locals(f, {2}, through_calls=lambda t: True)
            ok = ok and a["pl"]["l"] in P
        ctx.check(ok, R, "%s keeps the %s" % (fname, other), "", "%s does not compose the new template from its argument and the existing template's %s part" % (fname, other), f.loc(), fn=f.name,
                  key="%s|%s" % (R, fname))
    for fname, via in (("clear_arch", "set_arch"), ("clear_languages", "set_languages")):
        f = prog.fn(SI + fname)
        cs = [cname(prog, t) for b, t in f.calls()]
        ctx.check(any(c.startswith(SI + via) for c in cs), R, "%s goes through %s" % (fname, via), "", "%s does not call %s (calls: %s)" % (fname, via, [short(c) for c in cs]), f.loc(), fn=f.name,
                  key="%s|%s" % (R, fname))
    # arch()/languages() split at the first ';'
    for fname in ("arch", "languages", "set_arch", "set_languages"):
        f = prog.fn(SI + fname)
        S = Sym(prog, f)
        sp = [args for b, n, args, t in symcalls(prog, f, S) if re.search(r"<impl str>::(split_once|splitn)$", n)]
        ctx.check(len(sp) == 1 and "c:59" in " ".join(sp[0]), R, "%s splits the template at ';'" % fname, "", "%s does not split the template at the first ';': %s" % (fname, sp), f.loc(), fn=f.name)
    cp_thread(ctx)


def cp_thread(ctx):
    prog = ctx.prog
    R = "CP-THREAD"
    ctx.rule(R, "PropertySet::write encodes every value with the set's own code page and read decodes every value with the code page parsed from property 1 (the code page "
                "property itself with the default)")
    w = prog.fn(PS + "PropertySet::write")
    S = Sym(prog, w)
    pw = [args for b, n, args, t in symcalls(prog, w, S) if n.endswith("PropertyValue::write")]
    if not pw:
        # the values are written from a closure (`values().try_for_each(|v| v.write(&mut writer, self.codepage))`)
        from ..lib import unit_calls as _uc
        pw = [args for b, n, args, t, L in _uc(prog, w, S) if n.endswith("PropertyValue::write")]
    ctx.check(len(pw) == 1 and pw[0][2].lstrip("&*") == "p1.codepage", R, "write uses self.codepage", str([a[2] for a in pw]), "PropertySet::write encodes values with %s" % [a[2] for a in pw], w.loc(), fn=w.name)
    r = prog.fn(PS + "PropertySet::read")
    S = Sym(prog, r)
    pr = [args for b, n, args, t in symcalls(prog, r, S) if n.endswith("PropertyValue::read")]
    ok = len(pr) == 2 and "Default>::default" in pr[0][1] and "Default>::default" not in pr[1][1]
    ctx.check(ok, R, "read uses the parsed code page", "", "PropertySet::read decodes values with %s" % [a[1][:60] for a in pr], r.loc(), fn=r.name)


def summary_new(ctx, rule="CP-THREAD"):
    """a fresh summary states its code page"""
    prog = ctx.prog
    f = prog.fn("msi::internal::summary::SummaryInfo::new")
    cs = [(b, n) for b, n, a, t in symcalls(prog, f) if n.endswith("::set_codepage")]
    dom = cfg.dominators(f)
    ctx.check(bool(cs) and all(cs[0][0] in dom[r] for r in f.returns()), rule, "SummaryInfo::new stores the code page property", "", "SummaryInfo::new does not call set_codepage on every path: "
              "a created package's summary has no code page property and other readers decode its strings with their default", f.loc(), fn=f.name, key=rule + "|new")


def header_tables(ctx, rule="HDR-TAB"):
    """small number tables of the property-set header (C10, C02)"""
    prog = ctx.prog
    ctx.rule(rule, "PropertyFormatVersion::version_number is {V0: 0, V1: 1}; the operating-system field is read and written through mutually inverse tables with the format's numbering "
                   "{0 Win16, 1 Macintosh, 2 Win32}: a header read from a file is written back unchanged")
    f = prog.fn(PS + "PropertyFormatVersion::version_number")
    tab = tables.enum_table(prog, f, "internal::propset::PropertyFormatVersion")
    got = {k: (v[1] if v and v[0] == "int" else None) for k, v in (tab or {}).items()}
    ctx.check(got == {"V0": 0, "V1": 1}, rule, "format version numbers", str(got), "version_number maps %s, the format uses V0 -> 0, V1 -> 1" % got, f.loc(), fn=f.name, key=rule + "|version")
    REF = {"Win16": 0, "Macintosh": 1, "Win32": 2}
    r = prog.fn(PS + "PropertySet::read")
    w = prog.fn(PS + "PropertySet::write")
    Sr, Sw = Sym(prog, r), Sym(prog, w)
    rd = {}
    for bl in r.blocks:
        if bl["cleanup"] or bl["term"]["t"] != "switch":
            continue
        for v, tg in bl["term"]["cases"]:
            for st in r.blocks[tg]["stmts"]:
                rr = st["rhs"]
                if rr["rv"] == "agg" and (rr.get("adt") or "").endswith("OperatingSystem"):
                    rd[rr["variant"]] = v
    wr = {}
    vs_os = tables.enum_variants(prog, "msi", "internal::propset::OperatingSystem") or {}
    for bl in w.blocks:
        if bl["cleanup"]:
            continue
        for st in bl["stmts"]:
            o = st["rhs"].get("ops", [{}])[0] if st["rhs"]["rv"] == "use" else {}
            if o.get("k") == "const" and o.get("ty") == "u16" and "int" in o:
                fs = [tr for (e, tr, g) in Sw.bool_facts_at(bl["id"]) if re.fullmatch(r"discr\(\*?p1\.os\)", e) and not isinstance(tr, bool) and tr[0] == "=="]
                if fs and fs[-1][1] in vs_os:
                    wr[vs_os[fs[-1][1]]] = o["int"]
    ctx.check(rd == REF and wr == REF, rule, "operating-system numbers", "read %s write %s" % (rd, wr), "the operating-system field is read as %s and written as %s; the format uses %s and the two "
              "tables must be inverse" % (rd, wr, REF), r.loc(), fn=r.name, key=rule + "|os")


def prop_all(ctx, rule="PROP-ALL"):
    """every entry of the property directory is read and kept"""
    from .loops import cycle_without
    prog = ctx.prog
    ctx.rule(rule, "in PropertySet::read every iteration of the loop over the directory entries, and of the loop over the recorded offsets, ends in an insertion into its map "
                   "(or leaves through an error): no property is skipped, so the set that is written back is the set that was read - including the code page property")
    r = prog.fn(PS + "PropertySet::read")
    ins = {b for b, t in r.calls() if re.search(r"BTreeMap::<K, V, A>::insert$|btree_map::VacantEntry::<'a, K, V, A>::insert(_entry)?$|btree_map::Entry::<'a, K, V, A>::or_insert(_with)?$",
                                                cname(prog, t))}
    loops = cfg.natural_loops(r)
    n = 0
    for h, body in sorted(loops.items()):
        here = ins & body
        if not here:
            continue
        n += 1
        ctx.check(not cycle_without(r, h, body, here), rule, "loop at bb%d stores every entry" % h, "%d insert site(s)" % len(here),
                  "PropertySet::read can finish an iteration of its loop over the property directory without storing the entry: that property (for instance the code page, "
                  "property 1) is missing from the set and disappears at the next save", r.loc(r.blocks[h]["term"].get("sp")), fn=r.name, key="%s|loop%d" % (rule, n))
    ctx.floor(rule, "directory loops in PropertySet::read", n, 2)


def lang_list(ctx, rule="LANG-LIST"):
    """every parsable entry of the template's language list is reported, whatever its value (0 is the neutral language, a legitimate entry)"""
    from ..lib import unit_comparisons
    prog = ctx.prog
    ctx.rule(rule, "SummaryInfo::languages drops only list entries that do not parse: no list element is compared with a constant (a filter on the value would lose the neutral "
                   "language 0, which templates such as `Intel;0` carry)")
    f = prog.fn(SI + "languages")
    bad = [(o, x[:60], y) for (o, x, y, fa) in unit_comparisons(prog, f) if o in ("Eq", "Ne", "Lt", "Le", "Gt", "Ge") and
           ((x.startswith("elem(") and re.fullmatch(r"c:-?\d+", y)) or (y.startswith("elem(") and re.fullmatch(r"c:-?\d+", x)))]
    prs = [1 for g in prog.unit(f) for b, t in g.calls() if re.search(r"<impl str>::parse$", t.get("callee") or "")]
    ctx.check(not bad and bool(prs), rule, "languages() keeps every parsed code", "%d parse site(s)" % len(prs),
              "SummaryInfo::languages filters list entries by value (%s): a template listing that language comes back without it" % bad[:2], f.loc(), fn=f.name, key=rule)
