"""C03 (partial): structural necessary conditions of the relational behaviour of select / delete / update / insert.
Which rows a predicate selects is a runtime quantity and is NOT decided; what is decided is the shape every correct implementation
of these functions must have in this code base (polarity of the filters, what is projected, what is counted, what is assigned)."""
import re

from .. import cfg
from ..flow import derived_locals
from ..lib import call_of, closure_sites, cname, has_fact, short, symcalls
from ..sym import Sym

Q = "msi::internal::query::"
EVAL = "msi::internal::expr::Expr::eval"
TOBOOL = "msi::internal::value::Value::to_bool"


def _cond_closure(prog, f):
    """closures of f that evaluate an expression"""
    return [c for c in f.closures if any(cname(prog, t) == EVAL for b, t in c.calls())]


def _row_from_own_cells(prog, c):
    """the row handed to eval is Row::new(table.clone(), cells of the closure's own row argument mapped through to_value)"""
    S = Sym(prog, c)
    ev = [t for b, t in c.calls() if cname(prog, t) == EVAL]
    rn = [t for b, t in c.calls() if cname(prog, t) == "msi::internal::table::Row::new"]
    it = [S.val(t["args"][0]) for b, t in c.calls() if (t.get("callee") or "").endswith("<impl [T]>::iter")]
    mp = [t for b, t in c.calls() if (t.get("callee") or "").endswith("Iterator::map")]
    inner = [cc for bb, cc in closure_sites(prog, c)]
    tv = any(cname(prog, t) == "msi::internal::value::ValueRef::to_value" for cc in inner for b, t in cc.calls())
    own = any(re.search(r"\bp[23]\b", x) for x in it)
    if not own:
        # the row is captured from the enclosing per-row closure (`rows.iter().map(|row| cond.is_none_or(|e| .. row.iter() ..))`)
        from ..lib import closure_caps
        top = c.owner
        for g in ([top] + list(top.closures)) if top is not None else []:
            caps = closure_caps(prog, g).get(c.id)
            if caps is None or g.kind != "Closure":
                continue
            for x in it:
                m = re.search(r"\bp1\.(\d+)\b", x)
                if m and int(m.group(1)) < len(caps) and re.fullmatch(r"[&*]*p[23]", caps[int(m.group(1))]):
                    own = True
    return len(ev) == 1 and len(rn) == 1 and len(mp) == 1 and tv and own and S.val(ev[0]["args"][1]).startswith("&call@")


def _row_own_loose(prog, c):
    """weaker, form-independent reading of `the row evaluated is built from that very row's cells`: the values handed to Row::new derive from the closure's own row
    argument, through ValueRef::to_value, and the evaluated row is that Row"""
    from ..flow import derived_locals
    S = Sym(prog, c)
    ev = [t for b, t in c.calls() if cname(prog, t) == EVAL]
    rn = [t for b, t in c.calls() if cname(prog, t) == "msi::internal::table::Row::new"]
    unit = [c] + [cc for bb, cc in closure_sites(prog, c)]
    tv = [(g, t) for g in unit for b, t in g.calls() if cname(prog, t) == "msi::internal::value::ValueRef::to_value"]
    if not (len(ev) == 1 and len(rn) == 1 and tv):
        return False
    der = derived_locals(c, {2}, through_calls=lambda t: True)
    a = rn[0]["args"][1]
    return bool(a.get("pl")) and a["pl"]["l"] in der and S.val(ev[0]["args"][1]).startswith("&call@")


def filter_scenarios(prog, c):
    """the filter closure c under each case of (condition present?, condition true?): {scenario: (constant result or None, releases cells?)}.
    Conditional constant propagation on the closure body (spec.specialise), so the verdict does not depend on how the flag is spelled
    (`should_delete` / `should_keep`, match / if-let, early return / trailing expression)."""
    from ..spec import specialise, fold
    S = Sym(prog, c)
    tb = [(b, t) for b, t in c.calls() if cname(prog, t) == TOBOOL]
    ev = [(b, t) for b, t in c.calls() if cname(prog, t) == EVAL]
    if len(tb) != 1 or len(ev) != 1:
        return None
    disc = [(e, tr) for (e, tr, g) in S.bool_facts_at(ev[0][0]) if e.startswith("discr(") and "Try" not in e and "Iterator" not in e and tr in (("==", 1), ("notin", (0,)))]
    scen = {}
    if disc:
        cexpr = disc[-1][0]
        cases = [("present,true", {cexpr: 1}, 1), ("present,false", {cexpr: 1}, 0), ("absent", {cexpr: 0}, None)]
    else:
        cases = [("present,true", {}, 1), ("present,false", {}, 0)]
    for name, dmap, tval in cases:
        g = specialise(prog, c, discr=dmap, calls=({tb[0][0]: tval} if tval is not None else {}))
        Sg = Sym(prog, g)
        r = fold(Sg.local(0))
        m = re.fullmatch(r"c:([01])", r)
        REM = "msi::internal::value::ValueRef::remove"
        rel = any(cname(prog, t) == REM for b, t in g.calls())
        # ... or inside a closure built on a live path and handed to for_each (`row.iter().for_each(|cell| cell.remove(pool))`)
        for bl in g.blocks:
            if bl["cleanup"]:
                continue
            for st in bl["stmts"]:
                cid = st["rhs"].get("cid") if st["rhs"]["rv"] == "agg" else None
                if cid in prog.fns and any(cname(prog, t) == REM for b, t in prog.fns[cid].calls()):
                    rel = True
        scen[name] = (int(m.group(1)) if m else None, rel, r)
    return scen


def run(ctx):
    prog = ctx.prog
    R = "REL-FILTER"
    ctx.rule(R, "polarity and scope of the three row filters: Select keeps a row iff to_bool(condition.eval(row)); Delete drops a row iff to_bool(condition.eval(row)) (or always "
                "without a condition); Update applies its assignments iff the same test holds; in all three the row evaluated is built from that very row's cells and the table "
                "being queried")
    # Select
    f = prog.fn(Q + "Select::exec")
    cl = _cond_closure(prog, f)
    from ..lib import ret_locals as _rl
    ok = len(cl) == 1 and _row_from_own_cells(prog, cl[0]) and any(cname(prog, t) == TOBOOL and t["dest"]["l"] in _rl(cl[0]) for b, t in cl[0].calls())
    ctx.check(ok, R, "Select keeps matching rows", "retain(|r| to_bool(eval(r)))", "Select::exec's filter closure does not return to_bool(condition.eval(row of its own cells))", f.loc(), fn=f.name, key=R + "|Select")
    S = Sym(prog, f)
    rt = [(b, t) for b, t in f.calls() if (t.get("callee") or "").endswith("Vec::<T, A>::retain")]
    ctx.check(len(rt) == 1 and has_fact(S, rt[0][0], r"^discr\(p1\.condition\)$", ("==", 1)), R, "Select filters only when a condition is present", "", "Select::exec's retain is not under `condition is Some`", f.loc(), fn=f.name)
    # Delete
    f = prog.fn(Q + "Delete::exec")
    cl = _cond_closure(prog, f)
    ok, detail = len(cl) == 1, "no single closure evaluating the condition"
    if ok:
        c = cl[0]
        sc = filter_scenarios(prog, c)
        want = {"present,true": 0, "present,false": 1, "absent": 0}
        ok = sc is not None and set(sc) == set(want) and all(sc[k][0] == want[k] for k in want) and (_row_from_own_cells(prog, c) or _row_own_loose(prog, c))
        detail = str({k: v[2] for k, v in (sc or {}).items()})
    ctx.check(ok, R, "Delete drops matching rows", "retain returns false iff the condition is absent or true", "Delete::exec's retain closure does not return `false` exactly when "
              "to_bool(condition.eval(row)) (or no condition): results per case %s" % detail, f.loc(), fn=f.name, key=R + "|Delete")
    # Update
    f = prog.fn(Q + "Update::exec")
    S = Sym(prog, f)
    cl = _cond_closure(prog, f)
    ok = len(cl) == 1 and _row_from_own_cells(prog, cl[0])
    detail = ""
    if ok:
        c = cl[0]
        tb = [(b, t) for b, t in c.calls() if cname(prog, t) == TOBOOL]
        unit_cl = [g for g in prog.unit(f) if g is not f]
        # without a condition every row is selected: a constant `true` result beside the evaluation (in this closure or in the one that calls it),
        # or the evaluation wrapped in Option::is_none_or
        dflt = any(s["lhs"]["l"] == 0 and s["rhs"]["rv"] == "use" and s["rhs"]["ops"][0].get("int") == 1 for g in unit_cl for bl in g.blocks for s in bl["stmts"]) or \
            any(cname(prog, t).endswith("Option::<T>::is_none_or") for g in [f] + unit_cl for b, t in g.calls())
        from ..lib import ret_locals
        ok = len(tb) == 1 and tb[0][1]["dest"]["l"] in ret_locals(c) and dflt
        # the selection vector drives the apply loop: create() sits under a fact on an element of the zipped `selected`
        cr = [(b, t) for b, t in f.calls() if cname(prog, t) == "msi::internal::value::ValueRef::create"]
        if ok and cr:
            facts = [(e, tr) for (e, tr, g) in S.bool_facts_at(cr[0][0]) if isinstance(tr, bool)]
            sel = [x for x in facts if "Zip<A, B> as std::iter::Iterator>::next@Some.0.1" in x[0] and x[1] is True]
            ok = bool(sel)
            detail = str(facts[-2:])
            if not ok:
                # equivalent: the apply loop runs over rows.zip(selected).filter(|(_, &s)| s).map(|(r, _)| r)
                from ..lib import lifted_closures
                for L in lifted_closures(prog, f, S):
                    if L.call_block is None:
                        continue
                    nme = cname(prog, f.blocks[L.call_block]["term"])
                    if nme.endswith("Iterator::filter") and L.param and "Iterator::zip" in L.param and re.fullmatch(r"[*&]*p2\.1", L.SC.local(0)):
                        # the loop that contains create() draws from this filter
                        nx = [S.val(t["args"][0]) for b, t in f.calls() if (t.get("callee") or "").endswith("Iterator::next")]
                        chain = " ".join(nx)
                        for b, t in f.calls():
                            if cname(prog, t).endswith("Iterator::map") and ("call@%d:" % L.call_block) in S.val(t["args"][0]):
                                ok = ("call@%d:" % b) in chain or ok
                        ok = ok or ("call@%d:" % L.call_block) in chain
                        detail = "filter on the selection flag"
    ctx.check(ok, R, "Update changes matching rows only", "", "Update::exec does not apply its assignments exactly to the rows whose condition evaluates true (%s)" % detail[:120], f.loc(), fn=f.name, key=R + "|Update")

    # successive with() restrictions narrow the statement: combined with Expr::and, in all three builders
    for st in ("Select", "Update", "Delete"):
        g = prog.fn(Q + st + "::with", required=False)
        if g is None:
            ctx.anchor_missing(R, "%s::with" % st)
            continue
        comb = sorted({cname(prog, t).rsplit("::", 1)[-1] for u in prog.unit(g) for b, t in u.calls() if re.search(r"expr::Expr::(and|or|not|eq|ne)$", cname(prog, t))})
        ctx.check(comb == ["and"], R, "%s::with adds a conjunct" % st, str(comb), "%s::with combines an existing condition and the new one with %s: a second with() must restrict further (AND)" % (st, comb),
                  g.loc(), fn=g.name, key="%s|with|%s" % (R, st))
    # the order of values (keys are sorted by it, comparisons evaluate by it): Null < Int < Str, as derived from the declaration order
    adt = prog.adts.get("msi::internal::value::Value")
    order = [v["name"] for v in sorted(adt["variants"], key=lambda v: v["discr"])] if adt else None
    ctx.check(order == ["Null", "Int", "Str"], R, "Value orders Null < Int < Str", str(order), "enum Value declares its variants as %s: the derived ordering (row order of null keys, `<` on nulls) changes" % order,
              key=R + "|value-order")
    R = "REL-UPD"
    ctx.rule(R, "Update::exec stores, for each (column, value) pair of the statement, ValueRef::create(value.clone()) into the cell at index_for_column_name(column) of the row being updated, "
                "and touches no other cell")
    cs = symcalls(prog, f, S)
    im = [c for c in cs if c[1].endswith("IndexMut<I>>::index_mut")]
    cr = [c for c in cs if c[1] == "msi::internal::value::ValueRef::create"]
    ok = len(im) == 1 and len(cr) == 1
    if ok:
        ix = im[0][2][1]
        okn = re.search(r"index_for_column_name\(.*next@Some\.0\.0\)\)?\)?$", ix) is not None or "index_for_column_name(" in ix
        pair = re.findall(r"call@(\d+):<std::slice::Iter<'a, T> as std::iter::Iterator>::next@Some\.0\.0", ix)
        val = re.findall(r"call@(\d+):<std::slice::Iter<'a, T> as std::iter::Iterator>::next@Some\.0\.1", cr[0][2][0])
        if "index_for_column_name(" not in ix:
            # the (index, value) pairs were precomputed: updates.iter().map(|(name, value)| (index_for_column_name(name), value)).collect(), then iterated
            from ..lib import lifted_closures
            okn = False
            for L in lifted_closures(prog, f, S):
                if L.param and "p1.updates" in L.param and re.fullmatch(r"tuple\{.*index_for_column_name\(.*p2\.0\)\)*,[&*]*p2\.1\}", L.SC.local(0)):
                    okn = True
        ok = okn and bool(pair) and bool(val) and pair[-1] == val[-1] and "Clone>::clone(" in cr[0][2][0]
        stores = [s for bl in f.blocks if not bl["cleanup"] for s in bl["stmts"] if "*" in s["lhs"]["p"] and "ValueRef" in f.locals[s["lhs"]["l"]]]
        ok = ok and len(stores) == 1 and ("call@%d:" % im[0][0]) in S.local(stores[0]["lhs"]["l"])
    ctx.check(ok, R, "assignment targets the named column with the statement's value", "", "Update::exec does not store create(value.clone()) of the iterated (column, value) pair at that column's index", f.loc(), fn=f.name)

    R = "REL-PROJ"
    ctx.rule(R, "Select::exec projects in the requested order: column indices are pushed in the order of self.column_names, and both the result columns and every row's cells are "
                "built by mapping over that index list")
    f = prog.fn(Q + "Select::exec")
    S = Sym(prog, f)
    cs = symcalls(prog, f, S)
    push = [c for c in cs if c[1].endswith("Vec::<T, A>::push") and "index_for_column_name" in c[2][1]]
    loops = cfg.natural_loops(f)
    okp = len(push) == 1
    IDX = r"call@\d+:std::vec::Vec::<T>::with_capacity"
    if okp:
        nx = [c for c in cs if c[1].endswith("Iterator>::next") and "p1.column_names" in c[2][0]]
        okp = len(nx) == 1 and any(push[0][0] in bl and nx[0][0] in bl for bl in loops.values())
    from ..lib import unit_calls as _ucalls
    ucs = [(b, n, a, t) for (b, n, a, t, L) in _ucalls(prog, f, S)]
    if not push:
        # the index list collected in one go: column_names.iter().map(|n| index_for_column_name(n).ok_or_else(..)).collect::<io::Result<Vec<_>>>()?
        for (b, n, a, t) in [(b_, n_, a_, t_) for (b_, n_, a_, t_, L_) in _ucalls(prog, f, S) if L_ is None]:
            if n.endswith("Iterator::collect") and a and re.fullmatch(r"call@(\d+):std::iter::Iterator::map", a[0]):
                mb = int(re.fullmatch(r"call@(\d+):.*", a[0]).group(1))
                recv = S.val(f.blocks[mb]["term"]["args"][0])
                inner_ok = any(L is not None and L.call_block == mb and any(cname(prog, tt).endswith("Table::index_for_column_name") for bb, tt in L.fn.calls())
                               for (b2, n2, a2, t2, L) in _ucalls(prog, f, S))
                if re.fullmatch(r"core::slice::<impl \[T\]>::iter\(&\*<std::vec::Vec<T, A> as std::ops::Deref>::deref\(&p1\.column_names\)\)", recv) and inner_ok:
                    okp = True
                    IDX = r"call@\d+:<std::result::Result<T, E> as std::ops::Try>::branch@Continue\.0"
    maps = [c for c in ucs if c[1].endswith("Iterator::map") and c[2] and re.search(r"iter\(&?\*?<std::vec::Vec<T, A> as std::ops::Deref>::deref\(&?%s\)\)" % IDX, c[2][0])]
    # a projection may also be spelled as a loop over the index list that pushes into a fresh vector
    idx_iter = r"iter\(&\*<std::vec::Vec<T, A> as std::ops::Deref>::deref\(&%s\)\)" % IDX
    for c in cs:
        if c[1].endswith("Iterator>::next") and re.search(idx_iter, c[2][0]) and "Iterator::map" not in c[2][0]:
            body = [bl for h, bl in loops.items() if c[0] in bl]
            if body and any(cc[1].endswith("Vec::<T, A>::push") and cc[0] in min(body, key=len) for cc in cs):
                maps.append(c)
    ctx.check(okp and len(maps) == 2, R, "projection follows the requested order", "indices pushed per requested name; %d maps over the index list" % len(maps),
              "Select::exec does not build the projection by mapping over the requested-column index list for both columns and cells (%d maps, push in request loop: %s)" % (len(maps), okp), f.loc(), fn=f.name)
    # the projection is applied whenever columns were requested: its only condition is "the request is not empty"
    for c in maps:
        cond = [(e[:70], tr) for (e, tr, g) in S.bool_facts_at(c[0]) if isinstance(tr, bool) and not re.search(r"is_empty\(", e)]
        ctx.check(not cond, R, "projection applied whenever columns are requested", "", "Select::exec projects only under the additional condition %s: some requests (for example all columns "
                  "in another order, or a repeated column) come back in schema order" % cond, f.loc(), fn=f.name, key=R + "|always")
    # no reversal / sort / dedup of the index list or the rows
    bad = [short(c[1]) for c in cs if re.search(r"(::sort\w*|::reverse|::rev|::dedup\w*|::swap|::truncate|::pop)$", c[1])]
    ctx.check(not bad, R, "no reordering of rows or indices", "", "Select::exec reorders or truncates with %s" % bad, f.loc(), fn=f.name)

    R = "REL-LEN"
    ctx.rule(R, "Rows is an exact-size iterator: next() yields Some exactly while next_row_index < rows.len(), advancing the index by one per yielded row and building the row from "
                "rows[next_row_index]; size_hint() is (rows.len() - next_row_index, Some(the same))")
    f = prog.fn("msi::<internal::table::Rows<'a> as std::iter::Iterator>::next")
    S = Sym(prog, f)
    some = none = inc = None
    for bl in f.blocks:
        if bl["cleanup"]:
            continue
        for s in bl["stmts"]:
            r = s["rhs"]
            facts = [(e, tr) for (e, tr, g) in S.bool_facts_at(bl["id"])]
            if s["lhs"]["l"] == 0 and r["rv"] == "agg" and r.get("variant") == "Some":
                some = facts
            if s["lhs"]["l"] == 0 and r["rv"] == "agg" and r.get("variant") == "None":
                none = facts
            if [e.get("n") for e in s["lhs"]["p"] if isinstance(e, dict)] == ["next_row_index"]:
                inc = (S.val(r["ops"][0]) if r.get("ops") else "", facts)
    g = "(*p1.next_row_index Lt std::vec::Vec::<T, A>::len(&*p1.rows))"
    ok = some == [(g, True)] and none == [(g, False)] and inc is not None and inc[0] == "(*p1.next_row_index Add! c:1).0" and inc[1] == [(g, True)]
    ix = [c for c in symcalls(prog, f, S) if c[1].endswith("Index<I>>::index")]
    ok = ok and len(ix) == 1 and ix[0][2] == ["&*p1.rows", "*p1.next_row_index"]
    if not ok:
        # equivalent form: `let row = self.rows.get(self.next_row_index)?;` — Some exactly for an index below the length
        gets = [c for c in symcalls(prog, f, S) if re.search(r"(<impl \[T\]>|Vec::<T, A>)::get$", c[1]) and "p1.rows" in c[2][0] and c[2][1] == "*p1.next_row_index"]
        if len(gets) == 1 and not ix:
            br = [c for c in symcalls(prog, f, S) if c[1].endswith("Option<T> as std::ops::Try>::branch") and "::get(" in c[2][0] and "p1.rows" in c[2][0]]
            if len(br) == 1:
                gS = ("discr(call@%d:<std::option::Option<T> as std::ops::Try>::branch)" % br[0][0], ("==", 0))
                fr = [c for c in symcalls(prog, f, S) if c[1].endswith("from_residual")]
                def core(fs):
                    # facts other than "an inner loop over the row's cells has finished"
                    return [x for x in (fs or []) if not (re.search(r"Iterator>::next\)$", x[0]) and x[1] == ("==", 0))]
                ok = core(some) == [gS] and none is None and len(fr) == 1 and inc is not None and inc[0] == "(*p1.next_row_index Add! c:1).0" and core(inc[1]) == [gS]
    ctx.check(ok, R, "Rows::next", "", "Rows::next does not yield rows[next_row_index] exactly while next_row_index < rows.len(), advancing by one", f.loc(), fn=f.name, key=R + "|next")
    f = prog.fn("msi::<internal::table::Rows<'a> as std::iter::Iterator>::size_hint")
    S = Sym(prog, f)
    agg = [s for bl in f.blocks if not bl["cleanup"] for s in bl["stmts"] if s["lhs"]["l"] == 0 and s["rhs"]["rv"] == "agg"]
    want = "(std::vec::Vec::<T, A>::len(&*p1.rows) Sub! *p1.next_row_index).0"
    ok = len(agg) == 1 and [S.val(o) for o in agg[0]["rhs"]["ops"]] == [want, "std::option::Option::Some{%s}" % want]
    ctx.check(ok, R, "Rows::size_hint", "", "Rows::size_hint is not (rows.len() - next_row_index, Some(same))", f.loc(), fn=f.name, key=R + "|size_hint")
    es = [g for g in prog.fns.values() if g.crate == "msi" and "ExactSizeIterator" in (g.impl_trait or "")]
    ctx.ok(R, "ExactSizeIterator for Rows uses the default len()", "no overriding body" if not es else "overridden: %s" % [short(x.name) for x in es])

    R = "REL-INS"
    ctx.rule(R, "Insert::exec adds exactly the given rows: every stored row is re-inserted under its key, every new row is converted cell by cell (values.into_iter().map(create), no "
                "filtering) and inserted under the key built from its own values")
    f = prog.fn(Q + "Insert::exec")
    S = Sym(prog, f)
    cs = symcalls(prog, f, S)
    ins = [c for c in cs if c[1].endswith("BTreeMap::<K, V, A>::insert")]
    ok = len(ins) == 2
    crc = [c for c in f.closures if any(cname(prog, t) == "msi::internal::value::ValueRef::create" for b, t in c.calls())]
    ok = ok and len(crc) == 1
    filt = [short(c[1]) for c in cs if re.search(r"Iterator::(filter|filter_map|skip|take|step_by|skip_while|take_while|rev)$", c[1])]
    ctx.check(ok and not filt, R, "rows are copied over and added without filtering", "", "Insert::exec: keyed inserts %d, cell-creating closures %d, filtering adaptors %s" % (len(ins), len(crc), filt), f.loc(), fn=f.name)
    if ok:
        # second insert: key and row both derive from the same iteration variable of new_rows
        b2 = max(ins, key=lambda c: c[0])
        kn, ka = call_of(S, b2[2][1])
        rn_, ra = call_of(S, b2[2][2])
        ctx.check(bool(kn) and kn.endswith("Iterator::collect") and bool(rn_) and rn_.endswith("Iterator::collect"), R, "new row: key and cells are collected from the same values", "",
                  "the new-row insert does not use collected key/cell vectors", f.loc(), fn=f.name)
