"""C07: the gate's completeness: INFO-VALID (field-use completeness of Column::is_valid_value), CAT-ARMS / CAT-SHAPE (Category::validate)."""
import re

from .. import cfg, tables
from ..lib import cname, has_fact, short, symcalls
from ..sym import Sym

IVV = "msi::internal::column::Column::is_valid_value"
CAT = "internal::category::Category"


def _excludes(tr, v):
    """a fact on a discriminant that rules the variant v out"""
    if isinstance(tr, tuple) and len(tr) == 2:
        if tr[0] == "==":
            return tr[1] != v
        if tr[0] == "!=":
            return tr[1] == v
        if tr[0] == "notin":
            return v in tr[1]
    return False


def info_valid(ctx, rule="INFO-VALID"):
    prog = ctx.prog
    ctx.rule(rule, "Column::is_valid_value decides from every constraint field: Null -> is_nullable; Int -> inside value_range (min and max), storable in the column "
                   "width with the most negative value excluded (> i16::MIN && <= i16::MAX; > i32::MIN), never in a string column; Str -> never in an integer column, "
                   "category.validate when a category is set, membership when an enumeration is set, chars().count() <= max_len unless max_len == 0")
    f = prog.fn(IVV)
    S = Sym(prog, f)
    tab = tables.enum_table(prog, f, "internal::value::Value")
    d = tab.get("Null") if tab else None
    ctx.check(d == ("expr", "*p1.is_nullable"), rule, "Null -> is_nullable", str(d), "a null value is judged by %s, not by is_nullable" % (d,), f.loc(), fn=f.name)
    from ..lib import unit_comparisons, lifted_closures
    FLIP = {"Lt": "Gt", "Le": "Ge", "Gt": "Lt", "Ge": "Le", "Eq": "Eq", "Ne": "Ne"}

    def nz(x):
        return x.lstrip("&*")
    bins = []
    for (o, x, y, facts) in unit_comparisons(prog, f, S):
        x, y = nz(x), nz(y)
        if y == "p2@Int.0" or (y == "p1.coltype@Str.0" and "Iterator>::count(" not in x) or "Iterator>::count(" in y:
            o, x, y = FLIP[o], y, x
        bins.append((o, x, y, facts))
    V = "p2@Int.0"

    def has(alts, a, b_pred, no_range=False, **ctxf):
        """a comparison `a OP b` with (OP, b) among the equivalent alternatives, in the given context"""
        for (o, x, y, facts) in bins:
            if x != a:
                continue
            if not any(o == ao and b_pred(y, ac) for (ao, ac) in alts):
                continue
            if not all(facts.get(k) == v for k, v in ctxf.items()):
                continue
            if no_range and any("value_range" in k for k in facts):
                continue
            return True
        return False

    def const_is(y, c):
        return y in ("c:%d" % c, "(c:%d as i32)" % c)

    def same(y, c):
        return y == c
    INT = {"discr(*p2)": ("==", 1)}
    checks = [
        ("range minimum", has([("Lt", "p1.value_range@Some.0.0"), ("Ge", "p1.value_range@Some.0.0")], V, same, **INT)),
        ("range maximum", has([("Gt", "p1.value_range@Some.0.1"), ("Le", "p1.value_range@Some.0.1")], V, same, **INT)),
        ("Int16 lower bound excludes i16::MIN, whatever the declared range", has([("Gt", -32768), ("Ge", -32767)], V, const_is, no_range=True, **{"discr(*p1.coltype)": ("==", 0)})),
        ("Int16 upper bound, whatever the declared range", has([("Le", 32767), ("Lt", 32768)], V, const_is, no_range=True, **{"discr(*p1.coltype)": ("==", 0)})),
        ("Int32 excludes i32::MIN, whatever the declared range", has([("Gt", -2147483648), ("Ge", -2147483647), ("Ne", -2147483648)], V, const_is, no_range=True, **{"discr(*p1.coltype)": ("==", 1)})),
        ("unlimited width when max_len == 0", has([("Eq", 0), ("Ne", 0)], "p1.coltype@Str.0", const_is, **{"discr(*p2)": ("==", 2)})),
        ("length counted in characters", any(o in ("Le", "Gt") and "Iterator>::count(core::str::<impl str>::chars(" in x and y == "p1.coltype@Str.0" for (o, x, y, fa) in bins)),
    ]
    # equivalent spelling of the range test: (min..=max).contains(&number)
    from ..lib import call_of
    rc = []
    for c in symcalls(prog, f, S):
        if c[1].endswith("RangeInclusive::<Idx>::contains") and "p2@Int.0" in c[2][1]:
            cn, ca = call_of(S, c[2][0])
            if cn and cn.endswith("RangeInclusive::<Idx>::new") and ca == ["*p1.value_range@Some.0.0", "*p1.value_range@Some.0.1"]:
                rc.append(c)
    for L in lifted_closures(prog, f, S):
        # the same spelling inside a closure handed to value_range.is_some_and / map_or
        if not (L.param and "p1.value_range@Some.0" in L.param):
            continue
        for b, t in L.fn.calls():
            if cname(prog, t).endswith("RangeInclusive::<Idx>::contains") and "p2@Int.0" in L.val(t["args"][1]):
                cn, ca = call_of(L.SC, L.SC.val(t["args"][0]))
                if cn and cn.endswith("RangeInclusive::<Idx>::new") and [L.lift(x).lstrip("&*") for x in ca] == ["p1.value_range@Some.0.0", "p1.value_range@Some.0.1"]:
                    rc.append(t)
    if rc:
        checks[0] = ("range minimum", True)
        checks[1] = ("range maximum", True)
    for what, ok in checks:
        ctx.check(ok, rule, what, "", "is_valid_value lost or changed the check `%s`" % what, f.loc(), fn=f.name, key="%s|%s" % (rule, what))
    # range failures return false
    for b, n, args, t in symcalls(prog, f, S):
        pass
    cs = symcalls(prog, f, S)
    cv = [c for c in cs if c[1].endswith("Category::validate")]
    ok = len(cv) == 1 and has_fact(S, cv[0][0], r"^discr\(\*p1\.category\)$", ("==", 1)) and "p2@Str.0" in cv[0][2][1] and "p1.category@Some.0" in cv[0][2][0]
    if not cv:
        # the same test inside a closure handed to an Option combinator on self.category (is_some_and, map_or, ...)
        for L in lifted_closures(prog, f, S):
            for b, t in L.fn.calls():
                if cname(prog, t).endswith("Category::validate") and L.param and "p1.category@Some.0" in L.param:
                    a = [L.val(x) for x in t["args"]]
                    ok = "p1.category@Some.0" in a[0] and "p2@Str.0" in a[1]
    ctx.check(ok, rule, "category validation", "", "is_valid_value does not run category.validate(string) when a category is set", f.loc(), fn=f.name, key=rule + "|category")
    en = [c for c in cs if c[1].endswith("<impl [T]>::contains")]
    ok = len(en) == 1 and "p1.enum_values" in en[0][2][0] and "p2@Str.0" in en[0][2][1] and has_fact(S, en[0][0], r"is_empty\(&\*p1\.enum_values\)", False)
    if not en:
        # membership spelled as enum_values.iter().any(|allowed| allowed == string)
        for L in lifted_closures(prog, f, S):
            if L.call_block is None or not (L.param and "p1.enum_values" in L.param):
                continue
            nme = cname(prog, f.blocks[L.call_block]["term"])
            eqs = [[L.val(a) for a in t["args"]] for b, t in L.fn.calls() if re.search(r"PartialEq.*::eq$", cname(prog, t))]
            if re.search(r"Iterator>?::any$", nme) and any("p1.enum_values" in " ".join(a) and "p2@Str.0" in " ".join(a) for a in eqs):
                ok = has_fact(S, L.call_block, r"is_empty\(&\*p1\.enum_values\)", False)
    ctx.check(ok, rule, "enumeration membership", "", "is_valid_value does not test enumeration membership (when an enumeration is set)", f.loc(), fn=f.name, key=rule + "|enum")
    # a column may declare both a category and an enumeration: each is consulted whatever the other says
    for c in en:
        dep = [e[:60] for (e, tr, g) in S.bool_facts_at(c[0]) if re.search(r"discr\(\*?p1\.category\)", e) and _excludes(tr, 1)]
        ctx.check(not dep, rule, "enumeration consulted whatever the category", "", "is_valid_value tests the enumeration only when no category is declared (%s): a column with both accepts "
                  "values outside its enumeration" % dep, f.loc(), fn=f.name, key=rule + "|enum-independent")
    for c in cv:
        dep = [e[:60] for (e, tr, g) in S.bool_facts_at(c[0]) if "enum_values" in e and tr is True]
        ctx.check(not dep, rule, "category consulted whatever the enumeration", "", "is_valid_value runs category.validate only when no enumeration is declared (%s)" % dep, f.loc(), fn=f.name,
                  key=rule + "|category-independent")
    # the length limit binds whatever the category and the enumeration say (an identifier of 40 characters does not fit an identifier column of width 32)
    for (o, x, y, fa) in bins:
        if o in ("Le", "Gt", "Lt", "Ge") and "Iterator>::count(core::str::<impl str>::chars(" in x and y == "p1.coltype@Str.0":
            dep = [k[:60] for k, tr in fa.items() if (re.search(r"discr\(\*?p1\.category\)", k) and _excludes(tr, 1)) or ("enum_values" in k and "is_empty" in k and tr is False)]
            ctx.check(not dep, rule, "length consulted whatever the category and the enumeration", "", "is_valid_value tests the length only under %s: a column with a category "
                      "(or an enumeration) accepts strings longer than its width" % dep, f.loc(), fn=f.name, key=rule + "|length-independent")
    # cross-type arms are constant false: Int in Str column, Str in Int column
    ret_locals = {0}
    grew = True
    while grew:
        grew = False
        for bl in f.blocks:
            for s in bl["stmts"]:
                if s["lhs"]["l"] in ret_locals and not s["lhs"]["p"] and s["rhs"]["rv"] == "use":
                    o = s["rhs"]["ops"][0]
                    if o.get("pl") and not o["pl"]["p"] and o["pl"]["l"] not in ret_locals:
                        ret_locals.add(o["pl"]["l"])
                        grew = True
    falses = 0
    for bl in f.blocks:
        if bl["cleanup"]:
            continue
        for s in bl["stmts"]:
            if s["lhs"]["l"] in ret_locals and not s["lhs"]["p"] and s["rhs"]["rv"] == "use" and s["rhs"]["ops"][0].get("int") == 0:
                fa = {e: tr for (e, tr, g) in S.bool_facts_at(bl["id"])}
                if (fa.get("discr(*p2)") == ("==", 1) and fa.get("discr(*p1.coltype)") == ("==", 2)) or \
                        (fa.get("discr(*p2)") == ("==", 2) and fa.get("discr(*p1.coltype)") != ("==", 2) and len(fa) <= 2):
                    falses += 1
    ctx.check(falses >= 2, rule, "type mismatch is invalid", "%d constant-false arms" % falses, "integers in string columns / strings in integer columns are not rejected outright", f.loc(), fn=f.name, key=rule + "|mismatch")
    # no shortcut to `true`: a value is accepted only at the end of its arm (after range, width, category, enumeration and length were all consulted);
    # the one constant `true` is the `max_len == 0` short-circuit of the final length test
    for g in prog.unit(f):
        if g is not f and g.locals[0] != "bool":
            continue
        Sg = S if g is f else Sym(prog, g)
        for bl in g.blocks:
            if bl["cleanup"]:
                continue
            for s in bl["stmts"]:
                o = s["rhs"].get("ops", [{}])[0] if s["rhs"]["rv"] == "use" else {}
                if g is f and s["lhs"]["l"] == 0 and not s["lhs"]["p"] and o.get("k") == "const" and o.get("int") == 1:
                    fs = Sg.bool_facts_at(bl["id"])
                    last = fs[-1] if fs else ("", None, 0)
                    okc = (re.search(r"coltype@Str\.0 Eq c:0\)$", last[0]) and last[1] is True) or (re.search(r"coltype@Str\.0 Ne c:0\)$", last[0]) and last[1] is False)
                    ctx.check(bool(okc), rule, "no early acceptance", "constant true only for max_len == 0", "is_valid_value returns `true` early under %s: the remaining constraints "
                              "(category, enumeration, length, range) are skipped for such values" % ((last[0][:80], last[1]),), f.loc(s["sp"]), fn=f.name, key=rule + "|early-true")
    # every constraint field of Column is read
    reads = set()
    for bl in f.blocks:
        if bl["cleanup"]:
            continue
        for s in bl["stmts"]:
            for pl in [o["pl"] for o in s["rhs"].get("ops", []) if o.get("k") in ("copy", "move")] + ([s["rhs"]["pl"]] if "pl" in s["rhs"] else []):
                if pl["l"] == 1 or S.local(pl["l"]).lstrip("&*") == "p1":
                    nm = [e["n"] for e in pl["p"] if isinstance(e, dict) and "f" in e]
                    if nm:
                        reads.add(nm[0])
    want = {"is_nullable", "value_range", "coltype", "category", "enum_values"}
    ctx.check(want <= reads, rule, "all constraint fields are read", str(sorted(reads)), "is_valid_value ignores %s" % sorted(want - reads), f.loc(), fn=f.name, key=rule + "|fields")


SHAPES = {
    # category: list of (callee regex, regex over the joined symbolic args) that must all be present in the arm
    "UpperCase": [(r"Iterator::(any|all)$", r"."), ],
    "LowerCase": [(r"Iterator::(any|all)$", r"."), ],
    "Integer": [(r"<impl str>::parse$", r"")],
    "DoubleInteger": [(r"<impl str>::parse$", r"")],
    "Identifier": [(r"<impl str>::starts_with$", r""), (r"<impl str>::contains$", r"")],
    "Property": [(r"<impl str>::strip_prefix$", r"c:37"), (r"Category::validate$", r"Category::Identifier")],
    "Guid": [(r"<impl str>::len$", r""), (r"<impl str>::starts_with$", r"c:123"), (r"<impl str>::ends_with$", r"c:125"), (r"Index<I> for str>::index$", r"Range\{c:1,c:37\}"), (r"parse_str$", r"")],
    "Version": [(r"<impl str>::split$", r"c:46"), (r"Iterator::count$|::count$", r""), (r"Iterator::all$", r"")],
    "Language": [(r"<impl str>::split$", r"c:44"), (r"Iterator::all$", r"")],
    "Cabinet": [(r"<impl str>::strip_prefix$", r"c:35"), (r"Category::validate$", r"Category::Identifier"),
                # the name is split at its LAST dot: rsplitn(2, '.'), rsplit_once('.') or rfind('.')
                (r"<impl str>::(rsplitn|rsplit_once|rfind)$", r"^[^,]*,(c:2,)?c:46$")],
}
PARSE_TY = {"Integer": "i16", "DoubleInteger": "i32"}


def cat_arms(ctx, rule="CAT-ARMS"):
    prog = ctx.prog
    ctx.rule(rule, "each of the ten categories the property names has its own arm in Category::validate (not the `_ => true` default) and the arm has the documented shape: "
                   "parse::<i16>/<i32>, u16 parts split on '.'/',' with at most four version parts, GUID = 38 characters in braces without lowercase and a UUID in "
                   "[1..37], identifier first/other character classes, '%' / '#' prefixes delegating to Identifier, cabinet 8.3 limits")
    f = prog.fn("msi::internal::category::Category::validate")
    S = Sym(prog, f)
    dom = cfg.dominators(f)
    sw = tables.first_switch(f)
    vs = tables.enum_variants(prog, "msi", CAT)
    if sw is None or not vs:
        ctx.anchor_missing(rule, "match in Category::validate")
        return
    t = f.blocks[sw]["term"]
    arms = {vs[v]: tg for v, tg in t["cases"] if v in vs}
    other = t["otherwise"]
    for name, shape in sorted(SHAPES.items()):
        tg = arms.get(name)
        if not ctx.check(tg is not None and tg != other and tg != arms.get("Text"), rule, "%s has its own arm" % name, "", "Category::%s falls into the default `true` arm: every string is accepted" % name,
                         f.loc(), fn=f.name, key="%s|arm|%s" % (rule, name)):
            continue
        blks = {b for b in dom if tg in dom[b]}
        cs = [(b, n, args, tt) for (b, n, args, tt) in symcalls(prog, f, S) if b in blks]
        for (cre, are) in shape:
            ok = any(re.search(cre, n) and re.search(are, ",".join(args)) for (b, n, args, tt) in cs)
            ctx.check(ok, rule, "%s: %s" % (name, cre.split("::")[-1].rstrip("$")), "", "Category::%s no longer calls %s with arguments matching %r" % (name, cre, are), f.loc(), fn=f.name,
                      key="%s|shape|%s|%s" % (rule, name, cre))
        if name in PARSE_TY:
            w = [tt.get("written") or "" for (b, n, args, tt) in cs if n.endswith("<impl str>::parse")]
            ctx.check(any(("parse::<%s>" % PARSE_TY[name]) in x for x in w), rule, "%s parses %s" % (name, PARSE_TY[name]), str(w), "Category::%s parses %s" % (name, w), f.loc(), fn=f.name,
                      key="%s|parse|%s" % (rule, name))
    # conjunction arms: a string is accepted only after EVERY test of the category's grammar was passed — no result other than a constant `false` may be
    # produced on a path that skipped one of the arm's tests (an `&&` turned into `||` lets a string through on one test alone)
    retl = {0}
    grew = True
    while grew:
        grew = False
        for bl in f.blocks:
            for st in bl["stmts"]:
                if st["lhs"]["l"] in retl and not st["lhs"]["p"] and st["rhs"]["rv"] == "use":
                    o = st["rhs"]["ops"][0]
                    if o.get("pl") and not o["pl"]["p"] and o["pl"]["l"] not in retl:
                        retl.add(o["pl"]["l"])
                        grew = True
    CONJ = {"Guid": [r"<impl str>::len$", r"<impl str>::starts_with$", r"<impl str>::ends_with$", r"Iterator>?::(any|all)$", r"parse_str$"],
            "Version": [r"Iterator>?::count$|::count$", r"Iterator>?::all$"], "Language": [r"Iterator>?::all$"],
            "Identifier": [r"<impl str>::starts_with$", r"<impl str>::contains$"]}
    for name, tests in sorted(CONJ.items()):
        tg = arms.get(name)
        if tg is None or tg == other:
            continue
        blks = {b for b in dom if tg in dom[b]}
        tblocks = []
        for rx in tests:
            bs = {b for (b, n_, a_, t_) in symcalls(prog, f, S) if b in blks and re.search(rx, n_)}
            if bs:
                tblocks.append((rx, bs))
        results = []
        for b in blks:
            bl = f.blocks[b]
            for st in bl["stmts"]:
                if st["lhs"]["l"] in retl and not st["lhs"]["p"]:
                    o = st["rhs"].get("ops", [{}])[0] if st["rhs"]["rv"] == "use" else {}
                    if o.get("pl") and not o["pl"]["p"] and o["pl"]["l"] in retl:
                        continue  # a move of an already-counted result (the return place of an inlined helper)
                    if not (o.get("k") == "const" and o.get("int") == 0):
                        results.append(b)
            t_ = bl["term"]
            if t_["t"] == "call" and t_["dest"]["l"] in retl and not t_["dest"]["p"]:
                results.append(t_["succ"][0] if t_.get("succ") else b)
        skipped = []
        for rb in results:
            for rx, bs in tblocks:
                if rb in bs:
                    continue
                if rb in cfg.reachable(f, tg, avoid=bs):
                    skipped.append(rx.split("::")[-1].rstrip("$"))
        ctx.check(not skipped, rule, "%s: accepted only after every test" % name, "%d tests on every accepting path" % len(tblocks),
                  "Category::%s can accept a string on a path that skips its test(s) %s: the grammar's conditions are no longer all required" % (name, sorted(set(skipped))),
                  f.loc(), fn=f.name, key="%s|conj|%s" % (rule, name))
    # Cabinet, 8.3 branch: pieces in file order (rsplitn yields them reversed), and no acceptance that skipped the stem-length test
    tg = arms.get("Cabinet")
    if tg is not None and tg != other:
        blks = {b for b in dom if tg in dom[b]}
        sc = symcalls(prog, f, S)
        split = [b for (b, n_, a_, t_) in sc if b in blks and re.search(r"<impl str>::(rsplitn|rsplit_once|rfind)$", n_)]
        if split:
            if any(n_.endswith("<impl str>::rsplitn") for (b, n_, a_, t_) in sc if b in blks):
                rev = [b for (b, n_, a_, t_) in sc if b in blks and n_.endswith("<impl [T]>::reverse")]
                ctx.check(len(rev) == 1 and split[0] in dom[rev[0]], rule, "Cabinet: rsplitn pieces are put back in order", "", "Category::Cabinet splits with rsplitn (last piece first) "
                          "but does not reverse the pieces: the 8-character limit is applied to the extension and the 3-character limit to the stem", f.loc(), fn=f.name, key="%s|cabinet-reverse" % rule)
            region = {b for b in blks if split[0] in dom[b]}
            stem = {b for b in region for st in f.blocks[b]["stmts"] if st["rhs"]["rv"] == "bin" and st["rhs"]["op"] in ("Le", "Lt", "Gt", "Ge") and
                    any(S.val(o) in ("c:8", "c:9") for o in st["rhs"]["ops"])}
            # closures built in the region may hold the comparison (map_or(true, |ext| ..)) — only the stem test is required on every accepting path
            accepting = []
            for b in region:
                for st in f.blocks[b]["stmts"]:
                    if st["lhs"]["l"] in retl and not st["lhs"]["p"]:
                        o = st["rhs"].get("ops", [{}])[0] if st["rhs"]["rv"] == "use" else {}
                        if o.get("pl") and not o["pl"]["p"] and o["pl"]["l"] in retl:
                            continue
                        if not (o.get("k") == "const" and o.get("int") == 0) and b not in stem:
                            accepting.append(b)
            skipped = [b for b in accepting if stem and b in cfg.reachable(f, split[0], avoid=stem)]
            ctx.check(bool(stem) and not skipped, rule, "Cabinet: accepted only after the stem-length test", "", "Category::Cabinet can accept a name on a path that skips the `stem.len() <= 8` test",
                      f.loc(), fn=f.name, key="%s|cabinet-conj" % rule)
    # polarity of the parse tests: a value is valid when it PARSES (Result::is_ok), in the arm itself or in the per-part closures
    pol = sorted({cname(prog, t).rsplit("::", 1)[-1] for u in prog.unit(f) for b, t in u.calls() if re.search(r"Result::<T, E>::(is_ok|is_err|is_ok_and|is_err_and)$", cname(prog, t))})
    ctx.check(pol == ["is_ok"], rule, "parse tests accept what parses", str(pol), "Category::validate judges parse results with %s: Integer, DoubleInteger, GUID, Version and Language accept a string exactly when "
              "its (parts) parse" % pol, f.loc(), fn=f.name, key="%s|parse-polarity" % rule)
    # Cabinet (rsplitn spelling): the 8 limit is on piece 0 (stem), the 3 limit on piece 1 (extension)
    tgc = arms.get("Cabinet")
    if tgc is not None:
        blksc = {b for b in dom if tgc in dom[b]}
        if any(n_.endswith("<impl str>::rsplitn") for (b, n_, a_, t_) in symcalls(prog, f, S) if b in blksc):
            lim = {}
            for b in blksc:
                for st in f.blocks[b]["stmts"]:
                    r_ = st["rhs"]
                    if r_["rv"] == "bin" and r_["op"] in ("Le", "Lt", "Gt", "Ge"):
                        vals = [S.val(o) for o in r_["ops"]]
                        for k_ in ("c:8", "c:3"):
                            if k_ in vals:
                                other_v = [v for v in vals if v != k_][0]
                                mi = re.search(r"call@(\d+):<std::vec::Vec<T, A> as std::ops::Index<I>>::index", other_v)
                                ix = S.val(f.blocks[int(mi.group(1))]["term"]["args"][1]) if mi else ""
                                lim[k_] = ix[2:] if re.fullmatch(r"c:\d+", ix) else None
            # ... and the stem (piece 0) must not be empty: `.cab` is no cabinet name
            stem_ne = False
            for (b_, n_, a_, t_) in symcalls(prog, f, S):
                if b_ in blksc and n_.endswith("<impl str>::is_empty") and a_:
                    mi = re.search(r"call@(\d+):<std::vec::Vec<T, A> as std::ops::Index<I>>::index", a_[0])
                    if mi and S.val(f.blocks[int(mi.group(1))]["term"]["args"][1]) == "c:0":
                        stem_ne = True
            ctx.check(stem_ne, rule, "Cabinet: the stem is not empty", "", "Category::Cabinet no longer tests that the piece in front of the last '.' is non-empty: `.cab`, `.c` and `.` are accepted",
                      f.loc(), fn=f.name, key="%s|cabinet-stem" % rule)
            ctx.check(lim.get("c:8") == "0" and lim.get("c:3") == "1", rule, "Cabinet: 8 for the stem, 3 for the extension", str(lim), "Category::Cabinet applies its length limits to pieces %s "
                      "(expected limit 8 on piece 0, limit 3 on piece 1)" % lim, f.loc(), fn=f.name, key="%s|cabinet-pieces" % rule)
    # categories without a grammar in this library accept everything (the default arm is `true`)
    Stab, _d = tables.switch_table(prog, f)
    ctx.check((Stab or {}).get("otherwise") == ("int", 1), rule, "categories without a grammar accept every string", str((Stab or {}).get("otherwise")),
              "the default arm of Category::validate yields %s: columns of the remaining categories (Formatted, Path, Condition, ...) accept a different set of strings" % ((Stab or {}).get("otherwise"),),
              f.loc(), fn=f.name, key="%s|default-arm" % rule)
    # Identifier: first character ASCII letter or '_', every other ASCII letter/digit, '_' or '.'
    from ..lib import closure_sites as _cs
    tg = arms.get("Identifier")
    if tg is not None:
        blks = {b for b in dom if tg in dom[b]}
        cls = [c for b, c in _cs(prog, f) if b in blks]
        # predicates handed over as plain functions (`starts_with(is_identifier_start)`, `all(is_identifier_char)`) count like closures
        for b_, t_ in f.calls():
            if b_ in blks:
                for a_ in t_["args"]:
                    m_ = re.fullmatch(r"fn:(.*)", S.val(a_))
                    if m_ and ("msi::" + m_.group(1)) in prog.by_name:
                        cls.append(prog.fn("msi::" + m_.group(1)))
        names = sorted({cname(prog, t).rsplit("::", 1)[-1] for c in cls for b, t in c.calls() if "<impl char>::" in cname(prog, t)})
        consts = set()
        for c in cls:
            Sc = Sym(prog, c)
            for bl in c.blocks:
                for st in bl["stmts"]:
                    r = st["rhs"]
                    if r["rv"] == "bin" and r["op"] in ("Eq", "Ne"):
                        consts |= {Sc.val(o) for o in r["ops"] if o.get("k") == "const"}
        ctx.check(names == ["is_ascii_alphabetic", "is_ascii_alphanumeric"] and {"c:95", "c:46"} <= consts, rule, "Identifier character classes", "%s, literals %s" % (names, sorted(consts)),
                  "Category::Identifier tests characters with %s and the literals %s; an identifier is an ASCII letter or '_' followed by ASCII letters, digits, '_' and '.': the "
                  "Unicode predicates admit characters Windows Installer rejects" % (names, sorted(consts)), f.loc(), fn=f.name, key="%s|identifier-classes" % rule)
    unicode_preds = sorted({cname(prog, t).rsplit("::", 1)[-1] for c in prog.unit(f) for b, t in c.calls()
                            if re.search(r"<impl char>::(is_alphanumeric|is_alphabetic|is_numeric|is_lowercase|is_uppercase|is_whitespace|is_control)$", cname(prog, t))})
    ctx.check(not unicode_preds, rule, "category grammars are ASCII", "", "Category::validate uses the Unicode character predicates %s; the category grammars are defined over ASCII" % unicode_preds,
              f.loc(), fn=f.name, key="%s|ascii-only" % rule)
    # constants in comparisons of the arms
    want_consts = {"Guid": {"c:38"}, "Version": {"c:4"}, "Cabinet": {"c:8", "c:3", "c:2"}}
    for name, consts in want_consts.items():
        tg = arms.get(name)
        if tg is None:
            continue
        blks = {b for b in dom if tg in dom[b]}
        seen = set()
        for b in blks:
            for s in f.blocks[b]["stmts"]:
                r = s["rhs"]
                if r["rv"] == "bin" and r["op"] in ("Lt", "Le", "Gt", "Ge", "Eq", "Ne"):
                    for o in r["ops"]:
                        v = S.val(o)
                        if re.fullmatch(r"c:\d+", v):
                            seen.add((r["op"], v))
        # comparisons inside closures built in the arm (`extension.map_or(true, |ext| ext.len() <= 3)`) belong to the arm
        from ..lib import closure_sites
        for b, c in closure_sites(prog, f):
            if b in blks:
                Sc = Sym(prog, c)
                for bl in c.blocks:
                    for s in bl["stmts"]:
                        r = s["rhs"]
                        if r["rv"] == "bin" and r["op"] in ("Lt", "Le", "Gt", "Ge", "Eq", "Ne"):
                            for o in r["ops"]:
                                v = Sc.val(o)
                                if re.fullmatch(r"c:\d+", v):
                                    seen.add((r["op"], v))
        have = {v for (op, v) in seen}
        if name == "Cabinet" and not any(n.endswith("<impl str>::rsplitn") for (b, n, args, tt) in symcalls(prog, f, S) if b in blks):
            consts = consts - {"c:2"}  # the part count exists only in the rsplitn spelling
        ctx.check(consts <= have, rule, "%s limits %s" % (name, sorted(consts)), str(sorted(seen)), "Category::%s compares against %s, expected the limits %s" % (name, sorted(seen), sorted(consts)), f.loc(), fn=f.name,
                  key="%s|limits|%s" % (rule, name))
        if name == "Cabinet":
            def le(n_):
                return bool({("Le", "c:%d" % n_), ("Gt", "c:%d" % n_), ("Lt", "c:%d" % (n_ + 1)), ("Ge", "c:%d" % (n_ + 1))} & seen)
            parts_ok = ("Lt", "c:2") in seen or ("Ge", "c:2") in seen or "c:2" not in consts
            ctx.check(le(8) and le(3) and parts_ok, rule, "Cabinet 8.3 comparisons", "", "Cabinet limits are compared as %s (expected len <= 8, len <= 3, parts < 2)" % sorted(seen), f.loc(), fn=f.name)
        if name == "Version":
            ctx.check(("Le", "c:4") in seen, rule, "Version has at most four parts", "", "Version part count compared as %s" % sorted(seen), f.loc(), fn=f.name)
        if name == "Guid":
            ctx.check(("Eq", "c:38") in seen, rule, "GUID is exactly 38 characters", "", "GUID length compared as %s" % sorted(seen), f.loc(), fn=f.name)
    # u16 parts for Version and Language, closures parse::<u16>
    n16 = 0
    for c in f.closures:
        for b, tt in c.calls():
            if (tt.get("callee") or "").endswith("<impl str>::parse") and "parse::<u16>" in (tt.get("written") or ""):
                n16 += 1
    ctx.check(n16 == 2, rule, "Version and Language parts are u16", "%d closures" % n16, "expected two part-parsers of type u16 (Version, Language), found %d" % n16, f.loc(), fn=f.name)
    # case tests: UpperCase rejects lowercase and vice versa
    for name, pred in (("UpperCase", "is_ascii_lowercase"), ("LowerCase", "is_ascii_uppercase"), ("Guid", "is_ascii_lowercase")):
        tg = arms.get(name)
        if tg is None:
            continue
        blks = {b for b in dom if tg in dom[b]}
        cls = [c for c in f.closures if any(bb in blks for bb, cc in __import__("sa.lib", fromlist=["closure_sites"]).closure_sites(prog, f) if cc is c)]
        ok = any((tt.get("callee") or "").endswith(pred) for c in cls for b, tt in c.calls())
        ctx.check(ok, rule, "%s rejects %s characters" % (name, pred[9:]), "", "Category::%s does not test %s" % (name, pred), f.loc(), fn=f.name, key="%s|case|%s" % (rule, name))
