"""C11: stream-name validation, listing filter, signature removal (injectivity of the name packing is NOT decided)."""
import re

from .. import cfg
from ..lib import calls, cname, error_sites, has_fact, short, symcalls
from ..sym import Sym

P = "msi::internal::package::Package::<F>::"
SN = "msi::internal::streamname::"


def run(ctx):
    prog = ctx.prog
    R1 = "NAME-1"
    ctx.rule(R1, "in read_stream, write_stream and remove_stream, streamname::is_valid(name, false) holds (true edge dominates) at every "
                 "streamname::encode and every cfb stream operation, and its false edge leads to an InvalidInput error; is_table is the "
                 "constant false at these sites and at has_stream, and true only at Table::stream_name and the pool/data names")
    for name in ("read_stream", "write_stream", "remove_stream"):
        f = prog.fn(P + name)
        S = Sym(prog, f)
        cs = symcalls(prog, f, S)
        iv = [c for c in cs if c[1] == SN + "is_valid"]
        ok = len(iv) == 1 and iv[0][2] == ["&*p2", "c:0"]
        ctx.check(ok, R1, "%s validates its name as a stream name" % name, "is_valid(name, false)",
                  "%s does not call streamname::is_valid(stream_name, false) exactly once: %s" % (name, [c[2] for c in iv]), f.loc(), fn=f.name)
        if not ok:
            continue
        errs = [b for (b, t, k, m) in error_sites(prog, f) if k == "InvalidInput"]
        false_t = [tgt for tgt in f.succs()[iv[0][3]["succ"][0]]]
        reach_err = any(e in cfg.reachable(f, iv[0][3]["succ"][0]) for e in errs)
        ctx.check(reach_err, R1, "%s rejects invalid names" % name, "InvalidInput error on the false edge", "no InvalidInput error after is_valid in %s" % name, f.loc(), fn=f.name)
        ops = [c for c in cs if c[1] == SN + "encode" or re.match(r"cfb::CompoundFile::<F>::(open_stream|create_stream|remove_stream|is_stream|exists|create_new_stream)", c[1])]
        ctx.floor(R1, "%s: encode + container operations" % name, len(ops), 2)
        for (b, n, args, t) in ops:
            g = has_fact(S, b, r"^internal::streamname::is_valid\(&\*p2,c:0\)$", True)
            ctx.check(g, R1, "%s: %s after validation" % (name, n.rsplit("::", 1)[-1]), "", "%s reaches %s without a successful is_valid(name, false)" % (name, short(n)),
                      f.loc(t["sp"]), fn=f.name, key="%s|%s|%s" % (R1, name, n.rsplit("::", 1)[-1]))
            if n == SN + "encode":
                ctx.check(args == ["&*p2", "c:0"], R1, "%s: encode(name, false)" % name, "", "%s encodes %s" % (name, args), f.loc(t["sp"]), fn=f.name)
            elif len(args) >= 2:
                ctx.check("streamname::encode" in args[1], R1, "%s: container operation uses the encoded name" % name, args[1],
                          "%s passes %s to %s instead of the encoded name" % (name, args[1], short(n)), f.loc(t["sp"]), fn=f.name)
    # classification of every encode call site in msi
    want_true = {"msi::internal::table::Table::stream_name", "msi::internal::package::Package::<F>::open",
                 "msi::<internal::package::FinishImpl as internal::package::Finish<F>>::finish"}
    n = 0
    for f in prog.fns.values():
        if f.crate != "msi" or f.file == "src/internal/streamname.rs":
            continue
        for (b, nme, args, t) in symcalls(prog, f):
            if nme != SN + "encode":
                continue
            n += 1
            is_table = args[1]
            if f.name in want_true:
                okk = is_table == "c:1"
                if okk and f.name != "msi::internal::table::Table::stream_name":
                    okk = re.search(r"s:'_String(Pool|Data)'", args[0]) is not None
                ctx.check(okk, R1, "%s encodes a table name" % short(f.name), str(args), "%s encodes %s" % (short(f.name), args), f.loc(t["sp"]), fn=f.name)
            elif f.name not in (P + "read_stream", P + "write_stream", P + "remove_stream", P + "has_stream"):
                ctx.violation(R1, "%s calls streamname::encode" % short(f.name), "%s builds a container name with streamname::encode(%s) itself: only the four stream-API functions (is_table "
                              "= false) and Table::stream_name / the pool names (is_table = true) may; a table's stream must be named through Table::stream_name()" % (short(f.name), args),
                              f.loc(t["sp"]), fn=f.name, key="%s|stray-encode|%s" % (R1, short(f.name)))
            else:
                ctx.check(is_table == "c:0", R1, "%s encodes a stream name" % short(f.name), str(args),
                          "%s encodes %s with is_table != false: a user stream name is mapped into the table namespace" % (short(f.name), args),
                          f.loc(t["sp"]), fn=f.name)
    ctx.floor(R1, "streamname::encode call sites", n, 9)
    name_limit(ctx, R1)
    name_reserved(ctx, R1)

    R2 = "NAME-2"
    ctx.rule(R2, "Streams::next skips non-stream entries, every *_STREAM_NAME constant of streamname.rs, and every entry whose decoded name is a table")
    consts = {k.rsplit("::", 1)[-1]: v for k, v in prog.consts.items() if k.startswith(SN) and k.endswith("_STREAM_NAME")}
    ctx.floor(R2, "*_STREAM_NAME constants", len(consts), 4)
    REFN = {"SUMMARY_INFO_STREAM_NAME": "\x05SummaryInformation", "DOCUMENT_SUMMARY_INFO_STREAM_NAME": "\x05DocumentSummaryInformation",
            "DIGITAL_SIGNATURE_STREAM_NAME": "\x05DigitalSignature", "MSI_DIGITAL_SIGNATURE_EX_STREAM_NAME": "\x05MsiDigitalSignatureEx"}
    for cn_, lit in sorted(REFN.items()):
        have = consts.get(cn_, {}).get("lit")
        ctx.check(have == lit, R2, "%s is the container's name for that stream" % cn_, repr(have), "%s is %r; compound files name that stream %r: the library would look for (and write) "
                  "the summary / signature under a name no other tool uses" % (cn_, have, lit), key="%s|const|%s" % (R2, cn_))
    f = prog.fn("msi::<internal::stream::Streams<'a, F> as std::iter::Iterator>::next")
    if not any(cname(prog, t) == SN + "decode" for b, t in f.calls()):
        # the filter lives in a closure handed to find_map / find: read it as the loop it stands for
        from ..inline import expand_view
        f = expand_view(prog, f)
    S = Sym(prog, f)
    cs = symcalls(prog, f, S)
    eqs = [c for c in cs if c[1].endswith("::eq") and "Entry::name(" in c[2][0]]
    compared = " ".join(c[2][1] for c in eqs)
    dec = [c for c in cs if c[1] == SN + "decode"]
    # second form: membership of the entry name in an array of reserved names, `[A, B, ..].contains(&entry.name())`
    memb = [c for c in cs if c[1].endswith("<impl [T]>::contains") and len(c[2]) == 2 and "Entry::name(" in c[2][1]]
    for cname_, k in sorted(consts.items()):
        lit = k["lit"]
        from ..lib import deep_strs as _ds
        inm = [c for c in memb if ("s:%r" % lit) in c[2][0] or lit in c[2][0] or lit in _ds(S, c[2][0])]
        if inm and dec:
            g = any(tr is False and re.search(r"call@%d:|<impl \[T\]>::contains\(" % inm[0][0], e) for (e, tr, gg) in S.bool_facts_at(dec[0][0]))
            ctx.check(g, R2, "listing skips %s" % cname_, "member of the reserved-name array; yield on the `not contained` edge",
                      "the decode/yield path is not on the false edge of the reserved-name membership test for %s" % cname_, f.loc(), fn=f.name, key="%s|%s" % (R2, cname_))
            continue
        ok = ("s:%r" % lit) in compared or (lit in compared)
        ctx.check(ok, R2, "listing skips %s" % cname_, "", "Streams::next does not compare entry names with %s (%r): the stream shows up in the listing" % (cname_, lit),
                  f.loc(), fn=f.name, key="%s|%s" % (R2, cname_))
        if ok and dec:
            # the yield path must be on the false edge of this comparison
            c = [c for c in eqs if ("s:%r" % lit) in c[2][1] or lit in c[2][1]][0]
            g = any(tr is False and ("s:%r" % lit in e or lit in e) for (e, tr, gg) in S.bool_facts_at(dec[0][0]))
            ctx.check(g, R2, "%s: yield only when different" % cname_, "", "the decode/yield path is not on the `!=` edge of the %s comparison" % cname_, f.loc(), fn=f.name)
    ist = [c for c in cs if c[1].endswith("Entry::is_stream")]
    ctx.check(len(ist) == 1 and dec and has_fact(S, dec[0][0], r"Entry::is_stream\(", True), R2, "listing skips storages", "",
              "the yield path is not guarded by entry.is_stream()", f.loc(), fn=f.name)
    # is_table gates the yield: the Some(name) return is under !is_table
    ok = False
    for bl in f.blocks:
        if bl["cleanup"]:
            continue
        for s in bl["stmts"]:
            r = s["rhs"]
            if r["rv"] == "agg" and r.get("variant") == "Some" and (s["lhs"]["l"] == 0 or any("streamname::decode" in S.val(o) for o in r.get("ops", []))):
                facts = S.bool_facts_at(bl["id"])
                if any("streamname::decode" in e and e.endswith(".1") and tr is False for (e, tr, g) in facts):
                    ok = True
                elif any("streamname::decode" in S.val(o) for o in r.get("ops", [])):
                    ok = False
                    break
    ctx.check(ok, R2, "listing skips table streams", "Some(name) only under !is_table", "Streams::next yields a name without testing decode()'s is_table result", f.loc(), fn=f.name)

    # the listing walks the root storage only (not recursively): entries inside sub-storages are not package streams and no other stream API can reach them
    f = prog.fn(P + "streams")
    S = Sym(prog, f)
    src = [c for c in symcalls(prog, f, S) if c[1].startswith("cfb::CompoundFile::<F>::")]
    ok = bool(src) and all(c[1].endswith(("::read_root_storage",)) or (c[1].endswith("::read_storage") and re.search(r"s:'/?'", c[2][1] if len(c[2]) > 1 else "")) for c in src)
    nw = [c for c in symcalls(prog, f, S) if c[1].endswith("Streams::<'a, F>::new")]
    ok = ok and len(nw) == 1 and "read_root_storage" in nw[0][2][0] or (ok and len(nw) == 1 and "read_storage" in nw[0][2][0])
    ctx.check(ok, R2, "streams() lists the root storage only", str([short(c[1]) for c in src]),
              "Package::streams obtains its entries from %s: only the direct children of the root storage are package streams; a recursive walk lists streams of sub-storages "
              "(embedded transforms) that has_stream / read_stream / remove_stream cannot address" % [short(c[1]) for c in src], f.loc(), fn=f.name, key=R2 + "|root-only")

    R3 = "NAME-3"
    ctx.rule(R3, "remove_digital_signature removes only the two signature streams, each guarded by is_stream on the same constant; has_digital_signature "
                 "tests the DigitalSignature constant")
    f = prog.fn(P + "remove_digital_signature")
    S = Sym(prog, f)
    cs = symcalls(prog, f, S)
    rm = [c for c in cs if c[1] == "cfb::CompoundFile::<F>::remove_stream"]
    sig = {("s:%r" % consts[k]["lit"]) for k in ("DIGITAL_SIGNATURE_STREAM_NAME", "MSI_DIGITAL_SIGNATURE_EX_STREAM_NAME") if k in consts}
    removed = set()
    for c in rm:
        v = c[2][1]
        if "Iterator>::next@Some.0" in v and re.search(r"array::IntoIter<T, N>", v):
            # one removal inside a loop over an array of names: the names are the array's elements
            from ..lib import deep_strs
            for cc in cs:
                if cc[1].endswith("IntoIterator>::into_iter") or cc[1].endswith("::into_iter"):
                    removed |= {"s:'%s'" % x for x in deep_strs(S, cc[2][0])}
        else:
            removed.add(v)
    ctx.check(removed == sig and len(rm) in (1, 2), R3, "removed streams", str(sorted(removed)),
              "remove_digital_signature removes %s, expected exactly %s" % (sorted(removed), sorted(sig)), f.loc(), fn=f.name)
    for c in rm:
        g = any(tr is True and "is_stream(" in e and c[2][1] in e for (e, tr, gg) in S.bool_facts_at(c[0]))
        ctx.check(g, R3, "removal of %s guarded by is_stream" % c[2][1], "", "remove_stream(%s) is not guarded by is_stream of the same name (a missing signature becomes an error)" % c[2][1],
                  f.loc(c[3]["sp"]), fn=f.name)
    others = [c for c in cs if c[1].startswith("cfb::CompoundFile::<F>::") and not c[1].endswith(("::is_stream", "::remove_stream"))]
    ctx.check(not others, R3, "no other container operation", "", "remove_digital_signature also calls %s" % [short(c[1]) for c in others], f.loc(), fn=f.name)
    f = prog.fn(P + "has_digital_signature")
    cs = symcalls(prog, f)
    ist = [c for c in cs if c[1] == "cfb::CompoundFile::<F>::is_stream"]
    ctx.check(len(ist) == 1 and ist[0][2][1] == "s:%r" % consts["DIGITAL_SIGNATURE_STREAM_NAME"]["lit"], R3, "has_digital_signature", "",
              "has_digital_signature tests %s" % [c[2] for c in ist], f.loc(), fn=f.name)


def name_limit(ctx, R1="NAME-1"):
    """the 31-unit limit of container entry names, for streams and (with the marker character) tables"""
    prog = ctx.prog
    # table names are validated as TABLE names (the marker character counts against the 31-unit limit)
    tv = prog.fn("msi::internal::table::Table::is_valid_name")
    tcs = [args for b, nme, args, t in symcalls(prog, tv) if nme == SN + "is_valid"]
    ctx.check(len(tcs) == 1 and tcs[0] == ["&*p1", "c:1"], R1, "Table::is_valid_name validates with is_table = true", str(tcs), "Table::is_valid_name calls streamname::is_valid with %s: a table "
              "name of maximal length passes validation and is refused by the container only after the catalog was written" % tcs, tv.loc(), fn=tv.name, key=R1 + "|table-flag")
    f = prog.fn(SN + "is_valid")
    S = Sym(prog, f)
    cs = symcalls(prog, f, S)
    sw = [c for c in cs if c[1].endswith("<impl str>::starts_with")]
    em = [c for c in cs if c[1].endswith("<impl str>::is_empty")]
    en = [c for c in cs if c[1] == SN + "encode"]
    cmpc = [S.val(o) for bl in f.blocks if not bl["cleanup"] for s in bl["stmts"] if s["rhs"]["rv"] == "bin" and s["rhs"]["op"] in ("Le", "Lt", "Ge", "Gt") for o in s["rhs"]["ops"]]
    from ..lib import exceeds_facts
    lim, counted = None, None
    for bl in f.blocks:
        if bl["cleanup"]:
            continue
        for s_ in bl["stmts"]:
            r_ = s_["rhs"]
            if r_["rv"] == "bin" and r_["op"] in ("Le", "Lt", "Gt", "Ge"):
                a_, b_ = S.val(r_["ops"][0]), S.val(r_["ops"][1])
                if "count(" in a_ and re.fullmatch(r"c:\d+", b_):
                    counted = a_
                    lim = {"Le": int(b_[2:]), "Lt": int(b_[2:]) - 1, "Gt": int(b_[2:]), "Ge": int(b_[2:]) - 1}[r_["op"]]
                elif "count(" in b_ and re.fullmatch(r"c:\d+", a_):
                    counted = b_
                    lim = {"Ge": int(a_[2:]), "Gt": int(a_[2:]) - 1, "Lt": int(a_[2:]), "Le": int(a_[2:]) - 1}[r_["op"]]
    ctx.check(lim == 31, R1, "is_valid: at most 31 UTF-16 units", str(lim), "is_valid admits encoded names of up to %s UTF-16 units; a compound-file entry name holds 31" % lim, f.loc(), fn=f.name, key=R1 + "|limit31")
    ctx.check(counted is not None and ("encode_utf16(" in counted or "len_utf16(" in counted) and "streamname::encode" in counted, R1, "is_valid: the limit counts UTF-16 units of the encoded name", str(counted)[:120],
              "is_valid compares %s with the limit: a compound-file entry name holds 31 UTF-16 code units, so the units of the ENCODED name must be counted (a character outside "
              "the BMP is two units; counting characters or bytes admits names the container cannot store)" % counted, f.loc(), fn=f.name, key=R1 + "|utf16-units")
    ctx.check(len(em) == 1 and len(sw) == 1 and "c:18496" in sw[0][2][1] and len(en) == 1 and en[0][2] == ["&*p1", "p2"] and ("c:31" in cmpc or "c:32" in cmpc), R1,
              "is_valid: non-empty, no leading table marker for streams, encoded length <= 31", "",
              "is_valid lost a clause: is_empty %d, starts_with %s, encode %s, comparison operands %s" % (len(em), [c[2] for c in sw], [c[2] for c in en], cmpc),
              f.loc(), fn=f.name)
    if len(sw) == 1:
        ctx.check(has_fact(S, sw[0][0], r"^p2$", False) or any(e == "p2" and tr is False for (e, tr, g) in S.bool_facts_at(sw[0][0])), R1,
                  "is_valid: marker test applies to streams only", "", "the table-marker test is not conditioned on !is_table", f.loc(), fn=f.name)



def name_reserved(ctx, R1="NAME-1"):
    """is_valid refuses the characters a container entry name cannot hold and the code points the packing itself produces"""
    from ..lib import lifted_closures
    prog = ctx.prog
    f = prog.fn(SN + "is_valid")
    S = Sym(prog, f)
    cs = symcalls(prog, f, S)
    en = [c for c in cs if c[1] == SN + "encode"]
    # the acceptance path is on the `no reserved character` edge of a scan over the name's characters
    scans = [c for c in cs if re.search(r"Iterator>?::(any|all|find|position)$", c[1]) and "chars(" in c[2][0]]
    pred = None
    guard = False
    for c in scans:
        kind = c[1].rsplit("::", 1)[-1]
        want = {"any": False, "all": True}.get(kind)
        if en and want is not None and any(("call@%d:" % c[0]) in e and tr is want for (e, tr, g) in S.bool_facts_at(en[0][0])):
            guard = True
            m = re.fullmatch(r"fn:(.*)", c[2][1])
            if m:
                pred = prog.fn("msi::" + m.group(1)) if ("msi::" + m.group(1)) in prog.by_name else None
            else:
                for L in lifted_closures(prog, f, S):
                    if L.call_block == c[0]:
                        pred = L.fn
    ctx.check(guard and pred is not None, R1, "is_valid: acceptance only after a scan of the name for reserved characters", "", "streamname::is_valid accepts a name without scanning it for "
              "reserved characters: `\\`, `:` and `!` make the compound-file layer panic, `/` is taken as a path separator (\"/a\" is stored as \"a\"), and a character from the "
              "range the packing itself produces is listed under a different name", f.loc(), fn=f.name, key=R1 + "|reserved-scan")
    if pred is None:
        return
    consts = set()
    Sp = Sym(prog, pred)
    units_ = list(prog.unit(pred))
    for g0 in list(units_):
        # a closure that only forwards to the predicate function (`any(|ch| is_reserved(ch))`)
        for b_, t_ in g0.calls():
            h_ = prog.callee_fn(t_)
            if h_ is not None and h_.crate == "msi" and h_.file == "src/internal/streamname.rs" and h_ not in units_:
                units_ += list(prog.unit(h_))
    for g in units_:
        Sg = Sp if g is pred else Sym(prog, g)
        for bl in g.blocks:
            if bl["cleanup"]:
                continue
            t = bl["term"]
            if t["t"] == "switch":
                consts |= {v for v, tg in t["cases"] if v > 1}
            if t["t"] == "call":
                for a in t["args"]:
                    consts |= {int(x) for x in re.findall(r"c:(\d+)", Sg.val(a))}
            for st in bl["stmts"]:
                if st["rhs"]["rv"] == "bin":
                    for o in st["rhs"]["ops"]:
                        if o.get("k") == "const" and "int" in o:
                            consts.add(o["int"])
    need = {0x2f, 0x5c, 0x3a, 0x21, 0x3800}
    hi_ok = (0x4840 in consts) != (0x483f in consts)
    extra = {c_ for c_ in consts if c_ > 1} - need - {0x4840, 0x483f}
    ctx.check(need <= consts and hi_ok and not extra, R1, "is_valid: the reserved characters are / \\ : ! and U+3800..U+483F", str(sorted(hex(c_) for c_ in consts if c_ > 1)),
              "the reserved-character test of streamname::is_valid works with the constants %s; a container entry name cannot hold / \\ : ! (0x2f 0x5c 0x3a 0x21) and the packing "
              "produces exactly U+3800..U+483F (U+4840 is the table marker, legal inside a name)" % sorted(hex(c_) for c_ in consts if c_ > 1), pred.loc(), fn=pred.name, key=R1 + "|reserved-set")


def name4(ctx, rule="NAME-4"):
    prog = ctx.prog
    ctx.rule(rule, "write_stream obtains its stream from create_stream only (which truncates an existing stream), read_stream from open_stream only, remove_stream calls the "
                   "container's remove_stream exactly once; each on the encoded name")
    want = {"write_stream": ["create_stream"], "read_stream": ["open_stream"], "remove_stream": ["remove_stream"]}
    for name, ops in want.items():
        f = prog.fn(P + name)
        S = Sym(prog, f)
        got = sorted(n.rsplit("::", 1)[-1] for b, n, args, t in symcalls(prog, f, S)
                     if re.match(r"cfb::CompoundFile::<F>::(open_stream|create_stream|create_new_stream|remove_stream|open_stream_with_path)", n))
        ctx.check(got == ops, rule, name, str(got), "%s uses the container operations %s, expected exactly %s (an overwritten stream must be truncated; nothing else may be touched)" % (name, got, ops),
                  f.loc(), fn=f.name, key="%s|%s" % (rule, name))
    # StreamReader / StreamWriter forward to the wrapped stream
    for imp, meth in (("StreamReader<F> as std::io::Read", "read"), ("StreamReader<F> as std::io::Seek", "seek"), ("StreamWriter<F> as std::io::Write", "write"),
                      ("StreamWriter<F> as std::io::Write", "flush"), ("StreamWriter<F> as std::io::Seek", "seek")):
        f = prog.fn("msi::<internal::stream::%s>::%s" % (imp, meth))
        S = Sym(prog, f)
        cs = symcalls(prog, f, S)
        ok = len(cs) == 1 and cs[0][1].startswith("cfb::<internal::stream::Stream<F> as ") and cs[0][1].endswith("::" + meth) and cs[0][2][0] == "&*p1.stream" and cs[0][3]["dest"]["l"] == 0 \
            and all(a == "p%d" % (i + 2) or a == "&*p%d" % (i + 2) for i, a in enumerate(cs[0][2][1:]))
        ctx.check(ok, rule, "%s::%s forwards" % (imp.split("<")[0], meth), "", "%s::%s does not simply forward to the wrapped container stream: %s" % (imp.split("<")[0], meth, [(short(c[1]), c[2]) for c in cs]), f.loc(), fn=f.name)


def b64_tables(ctx, rule="B64-TABLE"):
    """the stream-name packing tables and ranges agree between encode, decode, to_b64 and from_b64 (C11, C02, C01)"""
    prog = ctx.prog
    ctx.rule(rule, "to_b64/from_b64 are mutually inverse tables over 0..63 ('0'-'9' 0.., 'A'-'Z' 10.., 'a'-'z' 36.., '.' 62, '_' 63); encode emits 0x3800 + (v2 << 6) + v1 for a "
                   "pair and 0x4800 + v for a single; decode recognises exactly the half-open ranges 0x3800..0x4800 (pair: low six bits first, then >> 6) and 0x4800..0x4840 "
                   "(single), subtracting the same bases; the table marker is U+4840")
    from ..lib import affine, interval_of
    # to_b64 as a piecewise table: (interval of the character, value as offset from the character or constant)
    f = prog.fn(SN + "to_b64")
    S = Sym(prog, f)
    pieces = []
    undec = []
    for bl in f.blocks:
        if bl["cleanup"]:
            continue
        for s in bl["stmts"]:
            r = s["rhs"]
            if s["lhs"]["l"] == 0 and r["rv"] == "agg" and r.get("variant") == "Some":
                lo, hi, ex = interval_of(S.bool_facts_at(bl["id"]), "p1")
                av = affine(S.val(r["ops"][0]), "p1")
                if av is None:
                    undec.append(S.val(r["ops"][0]))
                pieces.append((lo, hi, av))
    want = {(48, 57, (1, -48)), (65, 90, (1, -55)), (97, 122, (1, -61)), (46, 46, (0, 62)), (95, 95, (0, 63))}
    got = set(pieces)
    ctx.check(got == want, rule, "to_b64 table", "", "to_b64 maps %s (character interval, value as a*ch+b); expected digits->0.., upper->10.., lower->36.., '.'->62, '_'->63" % sorted(got, key=str),
              f.loc(), fn=f.name, key=rule + "|to_b64")
    f = prog.fn(SN + "from_b64")
    S = Sym(prog, f)
    cs = symcalls(prog, f, S)
    pieces = set()
    for b, n, a, t in cs:
        if n.endswith("char::from_u32"):
            mloc = re.fullmatch(r"_(\d+)", a[0])
            if mloc:
                # `let code = match value { 0..=9 => value + 48, .. }; char::from_u32(code)`: one piece per assignment of the local
                for (db, di, kind, payload) in S.du.whole_defs(int(mloc.group(1))):
                    lo, hi, ex = interval_of(S.bool_facts_at(db), "p1")
                    pieces.add((lo if lo is not None else 0, hi, affine(S._def_val((db, di, kind, payload), int(mloc.group(1)), 0), "p1")))
                continue
            lo, hi, ex = interval_of(S.bool_facts_at(b), "p1")
            pieces.add((lo if lo is not None else 0, hi, affine(a[0], "p1")))
    consts = []
    for bl in f.blocks:
        if bl["cleanup"]:
            continue
        for s in bl["stmts"]:
            if s["lhs"]["l"] == 0 and s["rhs"]["rv"] == "use" and s["rhs"]["ops"][0].get("k") == "const" and "int" in s["rhs"]["ops"][0] and not s["lhs"]["p"]:
                lo, hi, ex = interval_of(S.bool_facts_at(bl["id"]), "p1")
                consts.append((lo, hi, tuple(sorted(ex)), s["rhs"]["ops"][0]["int"]))
    wantp = {(0, 9, (1, 48)), (10, 35, (1, 55)), (36, 61, (1, 61))}
    dot = [c for c in consts if c[3] == 46 and c[0] == 62 and c[1] == 62]
    und = [c for c in consts if c[3] == 95 and (c[0] is None or c[0] >= 62) and (c[1] is None or c[1] >= 63)]
    ok = pieces == wantp and len(consts) == 2 and len(dot) == 1 and len(und) == 1
    ctx.check(ok, rule, "from_b64 table", "", "from_b64 maps %s with constants %s (value interval, result as a*v+b); it is not the inverse of to_b64" % (sorted(pieces, key=str), consts),
              f.loc(), fn=f.name, key=rule + "|from_b64")
    f = prog.fn(SN + "encode")
    S = Sym(prog, f)
    cs = symcalls(prog, f, S)
    fu = [a[0] for b, n, a, t in cs if n.endswith("char::from_u32")]

    def _expand(v, depth=0):
        # a value chosen by a match/if and stored in one local (`let encoded = match .. { .. => A, .. => B }`): the values of its assignments
        m_ = re.fullmatch(r"_(\d+)", v)
        if not m_ or depth > 3:
            return [v]
        out_ = []
        for d_ in S.du.whole_defs(int(m_.group(1))):
            out_ += _expand(S._def_val(d_, int(m_.group(1)), 0), depth + 1)
        return out_ or [v]
    fu = [y for x in fu for y in _expand(x)]
    from ..sym import split_bin

    def _terms(v):
        # the summands of a (checked or plain) sum, in any nesting and order
        core = v[:-2] if v.endswith(").0") else v
        sb = split_bin(core)
        if sb and sb[1] in ("Add!", "Add"):
            return _terms(sb[0]) + _terms(sb[2])
        return [v]

    def _b64_source(term):
        """'cur' / 'peek' when the term is the Some payload of to_b64 applied to the current / the peeked character (directly, through and_then, or through
        the result local of an expanded and_then)"""
        m_ = re.fullmatch(r"(.*)@Some\.0", term)
        if not m_:
            return None
        srcs = []
        for y in _expand(m_.group(1)):
            mc = re.fullmatch(r"call@(\d+):internal::streamname::to_b64", y)
            if mc:
                srcs.append(S.val(f.blocks[int(mc.group(1))]["term"]["args"][0]))
                continue
            ma = re.fullmatch(r"call@(\d+):std::option::Option::<T>::and_then", y)
            if ma:
                from ..lib import lifted_closures
                at = int(ma.group(1))
                recv = S.val(f.blocks[at]["term"]["args"][0])
                for _ in range(3):
                    mcp = re.fullmatch(r"call@(\d+):std::option::Option::<&(?:mut )?T>::(copied|cloned)", recv)
                    if not mcp:
                        break
                    recv = S.val(f.blocks[int(mcp.group(1))]["term"]["args"][0])
                fn_arg = S.val(f.blocks[at]["term"]["args"][1])
                via = fn_arg.endswith("streamname::to_b64") or any(L.call_block == at and any(cname(prog, t) == SN + "to_b64" for b, t in L.fn.calls()) for L in lifted_closures(prog, f, S))
                if via:
                    srcs.append(recv)
                continue
            if y.startswith("std::option::Option::None") or "Option::None" in y:
                continue
            return None
        if len(srcs) != 1:
            return None
        return "peek" if "peek" in srcs[0] else ("cur" if "Iterator>::next@Some.0" in srcs[0] else None)
    forms = []
    for x in fu:
        ts = _terms(x)
        consts_ = sorted(t_ for t_ in ts if re.fullmatch(r"c:\d+", t_))
        shl = [t_ for t_ in ts if re.fullmatch(r"\(.* Shl c:6\)", t_)]
        plain = [t_ for t_ in ts if t_ not in consts_ and t_ not in shl]
        if consts_ == ["c:14336"] and len(shl) == 1 and len(plain) == 1:
            forms.append(("pair", _b64_source(shl[0][1:-len(" Shl c:6)")]), _b64_source(plain[0])))
        elif consts_ == ["c:18432"] and not shl and len(plain) == 1:
            forms.append(("single", None, _b64_source(plain[0])))
        else:
            forms.append(("other", None, None))
    okp = sorted(forms, key=str) == sorted([("pair", "peek", "cur"), ("single", None, "cur")], key=str)
    ctx.check(okp, rule, "encode packing", "0x3800 + (next << 6) + current ; 0x4800 + current", "encode packs %s" % fu, f.loc(), fn=f.name, key=rule + "|encode")
    # no shortcut around the packing loop: every name, whatever it starts with, goes through it (container-level names such as "\\x05SummaryInformation"
    # must come out different from the real special streams)
    lp = cfg.natural_loops(f)
    dm = cfg.dominators(f)
    hdrs = [h for h, bl in lp.items() if any(n.endswith("to_b64") and b in bl for b, n, a, t in cs)]
    ctx.check(bool(hdrs) and all(any(h in dm[r] for h in hdrs) for r in f.returns()), rule, "encode always runs the packing loop", "", "streamname::encode can return without passing through its "
              "packing loop: some names are stored verbatim and collide with names outside the user-stream namespace", f.loc(), fn=f.name, key=rule + "|encode-always")
    # every character of the name produces output (a cycle of the packing loop without a push loses it), and a packed pair consumes its second character
    from .loops import cycle_without
    pushb = {b for b, n, a, t in cs if n.endswith("String::push")}
    for h in hdrs:
        ctx.check(not cycle_without(f, h, lp[h], pushb & lp[h]), rule, "encode emits something for every character", "", "an iteration of streamname::encode's loop can finish without pushing "
                  "anything: that character disappears from the stored name", f.loc(), fn=f.name, key=rule + "|encode-push")
    pairb = [b for b, n, a, t in cs if n.endswith("char::from_u32") and "c:14336" in a[0]]
    nexts = [b for b, n, a, t in cs if re.search(r"Peekable<I> as std::iter::Iterator>::next$|Iterator>?::next$", n)]
    if pairb:
        later = [b for b in nexts if b in cfg.reachable(f, pairb[0]) and any(b in lp[h] and not (set(f.succs()[b]) - lp[h]) or True for h in hdrs)]
        # a `next()` that is reachable from the pair's construction without going back through the loop header
        direct = [b for b in nexts if any(b in cfg.reachable(f, pairb[0], avoid={h}) for h in hdrs)]
        ctx.check(bool(direct), rule, "a packed pair consumes the peeked character", "", "after packing two characters into one, streamname::encode does not advance past the second: it is encoded again", f.loc(), fn=f.name,
                  key=rule + "|encode-consume")
    # a packable character is never stored raw: within one iteration, the push of the unmodified character is not reachable from the `Some` edge of its own to_b64
    # (raw ASCII letters fall under the container's case-insensitive name comparison, packed ones do not)
    raw = [b for b, n, a, t in cs if n.endswith("String::push") and re.fullmatch(r"call@\d+:.*Iterator>?::next@Some\.0", a[1])]
    cur = [(b, t) for b, n, a, t in cs if n.endswith("to_b64") and re.fullmatch(r"call@\d+:.*Iterator>?::next@Some\.0", a[0])]
    okr = bool(raw) and len(cur) == 1
    if okr:
        sw = f.blocks[cur[0][1]["succ"][0]]["term"]
        some_edges = [tg for v, tg in sw.get("cases", []) if v == 1] if sw["t"] == "switch" else []
        if sw["t"] == "switch" and not some_edges and sw["cases"] and sw["cases"][0][0] == 0:
            some_edges = [sw["otherwise"]]
        okr = bool(some_edges) and not any(r in cfg.reachable(f, e, avoid=set(hdrs)) for e in some_edges for r in raw)
    ctx.check(okr, rule, "a packable character is never stored raw", "", "streamname::encode can push a character unmodified although to_b64 accepted it (for instance when the following "
              "character cannot be packed): names that differ only in the case of such a letter collapse into one container entry", f.loc(), fn=f.name, key=rule + "|encode-raw")
    marker = [a for b, n, a, t in cs if n.endswith("String::push") and a[1] == "c:18496"]
    ctx.check(len(marker) == 1 and has_fact(S, marker[0] and [b for b, n, a, t in cs if n.endswith("String::push") and a[1] == "c:18496"][0], r"^p2$", True), rule, "table marker U+4840 only for tables", "",
              "encode does not push U+4840 exactly when is_table", f.loc(), fn=f.name, key=rule + "|marker")
    f = prog.fn(SN + "decode")
    if not any(cname(prog, t) == SN + "from_b64" for b, t in f.calls()):
        from ..inline import expand_view
        f = expand_view(prog, f)
    S = Sym(prog, f)
    cs = symcalls(prog, f, S)
    fbc = [(b, a[0]) for b, n, a, t in cs if n == SN + "from_b64"]
    ivs = []
    for b, a0 in fbc:
        lo = hi = None
        for (e, tr, g) in S.bool_facts_at(b):
            m = re.search(r"Range::<Idx>::contains\(&std::ops::Range::Range\{c:(\d+),c:(\d+)\},", e)
            if m and tr is True:
                lo, hi = int(m.group(1)), int(m.group(2)) - 1
            m = re.search(r"RangeInclusive", e)
        if lo is None:
            from .panic import _bounds_from_facts
            vm = re.search(r"\(call@\d+:<[^()]*Iterator>::next@Some\.0 as u32\)", a0)
            if vm:
                lo, hi = _bounds_from_facts(S.bool_facts_at(b), vm.group(0))
        ivs.append((lo, hi))
    ok = ivs == [(0x3800, 0x47ff), (0x3800, 0x47ff), (0x4800, 0x483f)]
    ctx.check(ok, rule, "decode ranges", "0x3800..=0x47ff (pair) and 0x4800..=0x483f (single)", "decode unpacks under the value ranges %s; expected 0x3800..=0x47ff for the two pair characters and "
              "0x4800..=0x483f for the single one (the images of encode; U+4840 is the table marker)" % [(lo is not None and hex(lo), hi is not None and hex(hi)) for lo, hi in ivs], f.loc(), fn=f.name,
              key=rule + "|decode-ranges")
    fb = [a[0] for b, n, a, t in cs if n == SN + "from_b64"]
    v = r"\(call@\d+:<[^()]*Iterator>::next@Some\.0 as u32\)"
    okd = len(fb) == 3 and re.fullmatch(r"\(\(%s Sub! c:14336\)\.0 BitAnd c:63\)" % v, fb[0]) and re.fullmatch(r"\(\(%s Sub! c:14336\)\.0 Shr c:6\)" % v, fb[1]) and \
        re.fullmatch(r"\(%s Sub! c:18432\)\.0" % v, fb[2])
    ctx.check(bool(okd), rule, "decode unpacking", "low six bits, then >> 6; single: - 0x4800", "decode unpacks %s" % [x[-40:] for x in fb], f.loc(), fn=f.name, key=rule + "|decode")
    # every unpacked value is appended to the output
    pushed = " ".join(a[1] for b, n, a, t in cs if n.endswith("String::push"))
    missing = [b for b, a0 in fbc if ("call@%d:" % b) not in pushed]
    ctx.check(not missing, rule, "decode appends every unpacked character", "", "decode computes %d character(s) with from_b64 that are never pushed to the decoded name" % len(missing), f.loc(), fn=f.name, key=rule + "|decode-push")
    dpush = {b for b, n, a, t in cs if n.endswith("String::push")}
    for h, body in cfg.natural_loops(f).items():
        ctx.check(not cycle_without(f, h, body, dpush & body), rule, "decode emits something for every stored character", "", "an iteration of streamname::decode's loop can finish without "
                  "pushing anything: that character disappears from the decoded name", f.loc(), fn=f.name, key=rule + "|decode-every")
    pk = [a for b, n, a, t in cs if n.endswith("Peekable::<I>::peek")]
    nie = [a for b, n, a, t in cs if (n.endswith("Peekable::<I>::next_if_eq") or n.endswith("<impl str>::strip_prefix")) and "c:18496" in a[1]]
    ctx.check((len(pk) == 1 and not nie) or (len(nie) == 1 and not pk), rule, "decode strips one leading marker", "", "decode peeks %d times / next_if_eq(marker) %d times" % (len(pk), len(nie)), f.loc(), fn=f.name)
