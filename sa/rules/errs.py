"""ERR-1: no io::Result is discarded (C15)."""
import json
import os
import re

from ..flow import DefUse
from ..lib import cname, short

VERIF = os.path.dirname(os.path.dirname(os.path.dirname(os.path.abspath(__file__))))

EXCEPTIONS = [
    dict(fn="msi::<internal::package::Package<F> as std::ops::Drop>::drop", callee="Finish::finish",
         reason="Drop cannot report an error; flush() is the documented way to observe write errors before dropping"),
    dict(fn="msi::internal::package::Package::<F>::open", callee="str>::parse",
         reason="unknown category names in foreign files are tolerated (the column simply carries no category); the error is a parse error of a cell, not an I/O error"),
]


def is_io_result(ty):
    return ty.startswith("std::result::Result<") and ty.rstrip(">").endswith("std::io::Error")


def classify(f, du, dest, _depth=0):
    """how the Result stored in local `dest` is consumed: set of tags"""
    tags = set()
    err_payload_read = False
    discr_read = False
    for (b, where, thing) in du.uses_of(dest):
        if where == "T":
            t = thing
            if t["t"] == "call":
                n = t.get("callee") or ""
                if n.endswith("Try::branch"):
                    tags.add("propagated")
                elif re.search(r"Result::<T, E>::(and|and_then|map|map_err|inspect_err)$", n) and t["args"][0].get("pl", {}).get("l") == dest and not t["dest"]["p"]:
                    # error-preserving combinators: the obligation moves to their result
                    sub = {"returned"} if t["dest"]["l"] == 0 else classify(f, du, t["dest"]["l"])
                    tags |= sub
                elif re.search(r"Result::<T, E>::(or|or_else)$", n):
                    tags.add("discarded:" + n.rsplit("::", 1)[-1])
                elif re.search(r"Result::<T, E>::(ok|is_ok|is_err|unwrap_or|unwrap_or_default|unwrap_or_else|err)$", n):
                    tags.add("discarded:" + n.rsplit("::", 1)[-1])
                elif re.search(r"Result::<T, E>::(unwrap|expect)$", n):
                    tags.add("unwrapped")
                else:
                    tags.add("passed:" + n.rsplit("::", 1)[-1])
            elif t["t"] == "drop":
                tags.add("dropped")
            elif t["t"] == "switch":
                discr_read = True
        else:
            s = thing
            r = s["rhs"]
            if s["lhs"]["l"] == 0 and not s["lhs"]["p"]:
                tags.add("returned")
                # `_0 = Err(move (r as Err).0)` (a written-out `r.map(..)`): the error payload goes into the returned value
                if any(o.get("k") in ("copy", "move") and o["pl"]["l"] == dest and any(isinstance(e, dict) and e.get("dc") == 1 for e in o["pl"]["p"]) for o in r.get("ops", [])):
                    err_payload_read = True
            elif r["rv"] == "discr":
                discr_read = True
            else:
                # reads of a projection of dest
                def reads_err(pl):
                    return pl["l"] == dest and any(isinstance(e, dict) and e.get("dc") == 1 for e in pl["p"])
                def reads_ok(pl):
                    return pl["l"] == dest and any(isinstance(e, dict) and e.get("dc") == 0 for e in pl["p"])
                pls = [o["pl"] for o in r.get("ops", []) if o.get("k") in ("copy", "move")]
                if "pl" in r:
                    pls.append(r["pl"])
                if any(reads_err(p) for p in pls):
                    err_payload_read = True
                    # `if let Err(e) = r { ..; return Err(e) }`: the payload ends up in the Err this function returns
                    from ..flow import derived_locals
                    der = derived_locals(f, {s["lhs"]["l"]})
                    for bl in f.blocks:
                        for st in bl["stmts"]:
                            rr = st["rhs"]
                            if not st["lhs"]["p"] and rr["rv"] == "agg" and rr.get("variant") == "Err" and \
                                    any(o.get("pl") and o["pl"]["l"] in der for o in rr.get("ops", [])):
                                if st["lhs"]["l"] == 0:
                                    tags.add("rethrown")
                                elif st["lhs"]["l"] != dest and _depth < 3:
                                    # the Err is built in the return place of an inlined helper: what happens to THAT result decides
                                    sub = classify(f, du, st["lhs"]["l"], _depth + 1)
                                    if sub & {"propagated", "returned", "rethrown"}:
                                        tags.add("rethrown")
                elif any(p["l"] == dest and not p["p"] for p in pls) and r["rv"] in ("use",):
                    # moved into another local: follow one step
                    sub = classify(f, du, s["lhs"]["l"]) if s["lhs"]["l"] != dest and not s["lhs"]["p"] else {"stored"}
                    tags |= sub
                elif any(p["l"] == dest and not p["p"] for p in pls):
                    tags.add("stored")
    if discr_read:
        tags.add("matched:err-read" if err_payload_read else "matched:err-ignored")
    return tags


def run(ctx, rule="ERR-1"):
    prog = ctx.prog
    ctx.rule(rule, "every call in msi returning Result<_, io::Error> has its result propagated with `?`, returned, unwrapped (PANIC's subject), or "
                   "matched with the Err payload read; a result that is only dropped, turned into an Option/bool, or matched without reading "
                   "the error is reported")
    n = 0
    hist = {}
    for f in sorted(prog.fns.values(), key=lambda x: x.name):
        if f.crate != "msi":
            continue
        du = None
        for b, t in f.calls():
            d = t["dest"]
            if d["p"]:
                continue
            ty = f.locals[d["l"]]
            if not is_io_result(ty):
                continue
            if (t.get("callee") or "").endswith(("Try::branch", "FromResidual::from_residual")):
                continue
            n += 1
            if d["l"] == 0:
                hist["returned"] = hist.get("returned", 0) + 1
                continue
            du = du or DefUse(f)
            tags = classify(f, du, d["l"])
            bad = [x for x in tags if x.startswith("discarded") or x == "matched:err-ignored"]
            if not tags or tags == {"dropped"}:
                bad = ["dropped without being examined"]
            key = ",".join(sorted(tags)) or "unused"
            hist[key] = hist.get(key, 0) + 1
            if not bad:
                continue
            callee = cname(prog, t)
            owner = (f.owner or f).name
            exc = [e for e in EXCEPTIONS if e["fn"] == owner and e["callee"] in callee]
            inst = "%s: result of %s" % (short(owner), short(callee))
            if exc:
                ctx.justified(rule, inst, exc[0]["reason"], f.loc(t["sp"]))
                continue
            ctx.violation(rule, inst, "the io::Result of %s is %s: an I/O error at this point is silently swallowed" % (short(callee), "; ".join(bad)),
                          f.loc(t["sp"]), fn=owner, key="%s|%s|%s" % (rule, short(owner), short(callee)))
    ctx.floor(rule, "call sites returning io::Result", n, 150)
    ctx.ok(rule, "%d call sites returning io::Result" % n, "consumption histogram: %s" % json.dumps(hist, sort_keys=True))
    ctx.extra["err1"] = dict(sites=n, histogram=hist)


# --------------------------------------------------------------------------- short reads / short writes
def short_io_sites(prog, f):
    """[(block, term, kind, count_used)] for every call of the short-count primitives io::Read::read / io::Write::write in f: these may transfer fewer
    bytes than asked for, so the returned count has to be looked at (read_exact / write_all are the all-or-error forms)"""
    from ..flow import derived_locals
    du = DefUse(f)
    out = []
    for b, t in f.calls():
        c = t.get("callee") or ""
        if not re.search(r"io::Read::read$|io::Write::write$", c):
            continue
        d = t["dest"]["l"]
        der = derived_locals(f, {d}, through_calls=lambda tt: re.search(r"Try>?::branch$|Result::<T, E>::(unwrap|expect|unwrap_or|unwrap_or_default|ok)$", tt.get("callee") or "") is not None)
        used = False
        for l in der:
            if not f.locals[l].startswith(("usize", "std::option::Option<usize>")):
                continue
            for (bb, where, thing) in du.uses_of(l):
                if where == "T" and thing["t"] in ("switch", "call", "assert"):
                    used = True
                elif where != "T" and thing["rhs"]["rv"] in ("bin", "cast") or (where != "T" and thing["lhs"]["l"] == 0):
                    used = True
                elif where != "T" and thing["rhs"]["rv"] == "use" and thing["lhs"]["l"] not in der:
                    used = True
        out.append((b, t, "read" if c.endswith("read") else "write", used))
    return out


def io_exact(ctx, rule="IO-EXACT"):
    prog = ctx.prog
    ctx.rule(rule, "io::Read::read / io::Write::write may transfer fewer bytes than requested: in msi and msi_ffi they are called only by the forwarding Read/Write impls of the "
                   "stream wrappers, or with the returned count inspected; a call whose count is discarded reads or writes a prefix and carries on")
    n = 0
    for f in prog.fns.values():
        if f.crate not in ("msi", "msi_ffi"):
            continue
        for (b, t, kind, used) in short_io_sites(prog, f):
            n += 1
            fwd = re.search(r" as std::io::(Read|Write)>::(read|write)$", f.name) is not None and t["dest"]["l"] == 0
            ctx.check(fwd or used, rule, "%s calls %s" % (short(f.name), kind), "forwarding impl" if fwd else "count inspected",
                      "%s calls io::%s and discards the byte count: a medium that returns fewer bytes than asked for (the container's streams do, at buffer boundaries) leaves "
                      "the rest of the buffer unread/unwritten without an error" % (short(f.name), "Read::read" if kind == "read" else "Write::write"), f.loc(t["sp"]), fn=f.name,
                      key="%s|%s|%s" % (rule, short(f.name), kind))
    ctx.floor(rule, "short-count I/O call sites (the two forwarding impls)", n, 2)
