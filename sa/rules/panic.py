"""PANIC: inventory of every potential panic edge, discharged by guard rules, justified by a frozen
table (one site-class, one reason), or reported."""
import json
import os
import re

from .. import cfg
from ..callgraph import CallGraph
from ..sym import Sym, split_bin

VERIF = os.path.dirname(os.path.dirname(os.path.dirname(os.path.abspath(__file__))))

IGNORED_ASSERTS = ("MisalignedPointerDereference", "NullPointerDereference", "InvalidEnumConstruction")

# external routines that can panic on some argument (matched on trait-method path `callee` or resolved path)
DENY_EXACT = {
    "std::option::Option::<T>::unwrap": "unwrap(None)",
    "std::option::Option::<T>::expect": "expect(None)",
    "std::result::Result::<T, E>::unwrap": "unwrap(Err)",
    "std::result::Result::<T, E>::expect": "expect(Err)",
    "std::result::Result::<T, E>::unwrap_err": "unwrap_err(Ok)",
    "std::result::Result::<T, E>::expect_err": "expect_err(Ok)",
    "core::panicking::panic": "panic",
    "core::panicking::panic_fmt": "panic",
    "core::panicking::assert_failed": "assert_failed",
    "core::panicking::panic_explicit": "panic",
    "core::panicking::unreachable_display": "panic",
    "core::panicking::panic_display": "panic",
    "std::rt::panic_fmt": "panic",
    "std::rt::begin_panic": "panic",
    "std::ops::Index::index": "index",
    "std::ops::IndexMut::index_mut": "index",
    "std::time::Duration::new": "Duration::new carry overflow",
    "std::process::abort": "abort",
    "std::process::exit": "exit",
}
DENY_SUFFIX = (
    "Vec::<T, A>::remove", "Vec::<T, A>::insert", "Vec::<T, A>::swap_remove", "Vec::<T, A>::drain",
    "Vec::<T, A>::split_off", "String::remove", "String::insert", "String::insert_str", "String::drain",
    "String::split_off", "String::truncate", "String::replace_range",
    "<impl [T]>::split_at", "<impl [T]>::split_at_mut", "<impl [T]>::copy_from_slice", "<impl [T]>::clone_from_slice",
    "<impl [T]>::swap", "<impl [T]>::chunks", "<impl [T]>::chunks_exact", "<impl [T]>::windows", "<impl [T]>::rotate_left",
    "<impl [T]>::rotate_right", "<impl [T]>::copy_within", "<impl str>::split_at", "<impl str>::repeat",
    "Iterator::step_by", "RefCell::<T>::borrow", "RefCell::<T>::borrow_mut",
    "<impl i32>::abs", "<impl i32>::pow", "<impl u32>::pow", "<impl u64>::pow", "<impl usize>::pow", "<impl i64>::abs",
    "<impl i32>::div_euclid", "<impl i32>::rem_euclid",
    "as std::ops::Add<std::time::Duration>>::add", "as std::ops::Sub<std::time::Duration>>::sub",
    "as std::ops::AddAssign<std::time::Duration>>::add_assign", "as std::ops::SubAssign<std::time::Duration>>::sub_assign",
    "Duration as std::ops::Add>::add", "Duration as std::ops::Sub>::sub", "Duration as std::ops::Mul<u32>>::mul",
    "Duration::from_secs_f64", "Duration::from_secs_f32",
    "std::char::from_digit", "<impl char>::to_digit", "<impl char>::from_digit",
    "Rc::<T>::try_unwrap", "std::hint::unreachable_unchecked", "std::option::Option::<T>::unwrap_unchecked",
    # chrono: documented panics on dates the format cannot express (RFC 2822: years 0..=9999 only)
    "chrono::DateTime::<Tz>::to_rfc2822", "chrono::NaiveDate::from_ymd", "chrono::NaiveTime::from_hms", "chrono::DateTime::<Tz>::with_timezone_unchecked",
)


class Site:
    __slots__ = ("fn", "block", "kind", "detail", "sp", "term", "mac")

    def __init__(self, fn, block, kind, detail, sp, term):
        self.fn = fn
        self.block = block
        self.kind = kind      # 'assert' | 'call'
        self.detail = detail  # e.g. 'Overflow:Sub', 'unwrap(None)', 'index', 'panic'
        self.sp = sp
        self.term = term
        self.mac = sp.get("mac", "") if sp.get("exp") else ""

    @property
    def cls(self):
        d = self.detail
        if self.mac and self.kind == "call":
            d = "%s[%s]" % (d, self.mac)
        return "%s:%s" % (self.kind, d)

    @property
    def loc(self):
        return "%s:%d" % (self.sp["file"], self.sp["line"])


def deny(term):
    cal = term.get("callee") or ""
    res = term.get("resolved") or ""
    if cal in DENY_EXACT:
        return DENY_EXACT[cal]
    if res in DENY_EXACT:
        return DENY_EXACT[res]
    for s in DENY_SUFFIX:
        if cal.endswith(s) or res.endswith(s):
            return s.split("::")[-1]
    return None


def sites_of(prog, fn):
    out = []
    for b in fn.blocks:
        if b["cleanup"]:
            continue
        t = b["term"]
        if t["t"] == "assert":
            if t["msg"].startswith(IGNORED_ASSERTS):
                continue
            out.append(Site(fn, b["id"], "assert", t["msg"], t["sp"], t))
        elif t["t"] == "call":
            if prog.callee_fn(t) is not None:
                continue
            d = deny(t)
            if d:
                # format_args internals never panic; they are not in the deny table anyway
                out.append(Site(fn, b["id"], "call", d, t["sp"], t))
    return out


# --------------------------------------------------------------------------- #
# guard rules


def _cmp_true(facts, a, op, b):
    """does some fact imply a `op` b ?  facts: list of (expr, truth, guardblock). op in Lt Le Gt Ge Eq Ne"""
    inv = {"Lt": "Ge", "Le": "Gt", "Gt": "Le", "Ge": "Lt", "Eq": "Ne", "Ne": "Eq"}
    swap = {"Lt": "Gt", "Le": "Ge", "Gt": "Lt", "Ge": "Le", "Eq": "Eq", "Ne": "Ne"}
    want = set()
    # a op b  <=>  b swap(op) a ; not(a inv(op) b)
    implied_by = {
        "Lt": ["Lt"], "Le": ["Le", "Lt", "Eq"], "Gt": ["Gt"], "Ge": ["Ge", "Gt", "Eq"], "Eq": ["Eq"], "Ne": ["Ne", "Lt", "Gt"],
    }
    for o in implied_by[op]:
        want.add(("(%s %s %s)" % (a, o, b), True))
        want.add(("(%s %s %s)" % (b, swap[o], a), True))
        want.add(("(%s %s %s)" % (a, inv[o], b), False))
        want.add(("(%s %s %s)" % (b, swap[inv[o]], a), False))
    for (e, truth, d) in facts:
        if isinstance(truth, bool) and (e, truth) in want:
            return d
    return None


def _const(s):
    m = re.fullmatch(r"c:(-?\d+)", s)
    return int(m.group(1)) if m else None


def _strip_casts(s):
    while True:
        m = re.fullmatch(r"\((.+) as [A-Za-z0-9_]+\)", s)
        if not m:
            return s
        s = m.group(1)


def _bounds_from_facts(facts, x):
    """upper/lower bound on expression x from comparison-with-constant facts; returns (lo, hi)"""
    lo, hi = None, None
    for (e, truth, d) in facts:
        if not isinstance(truth, bool):
            if e == x and truth[0] == "==":
                return truth[1], truth[1]
            if e == x and truth[0] in ("notin", "!="):
                # a `match` on the value itself that has taken 0, 1, .. in earlier arms: the value is at least the first number not excluded
                # (unsigned operands only, like the `!= 0` case below)
                ex = set(truth[1]) if truth[0] == "notin" else {truth[1]}
                k = 0
                while k in ex:
                    k += 1
                if k:
                    lo = k if lo is None else max(lo, k)
            continue
        sb = split_bin(e)
        if not sb:
            continue
        a, op, b = sb
        ca, cb = _const(a), _const(b)
        if a == x and cb is not None:
            pass
        elif b == x and ca is not None:
            sw = {"Lt": "Gt", "Le": "Ge", "Gt": "Lt", "Ge": "Le", "Eq": "Eq", "Ne": "Ne"}
            if op not in sw:
                continue
            a, op, b, cb = b, sw[op], a, ca
        else:
            continue
        if not truth:
            neg = {"Lt": "Ge", "Le": "Gt", "Gt": "Le", "Ge": "Lt", "Eq": "Ne", "Ne": "Eq"}
            if op not in neg:
                continue
            op = neg[op]
        if op == "Lt":
            hi = cb - 1 if hi is None else min(hi, cb - 1)
        elif op == "Le":
            hi = cb if hi is None else min(hi, cb)
        elif op == "Gt":
            lo = cb + 1 if lo is None else max(lo, cb + 1)
        elif op == "Ge":
            lo = cb if lo is None else max(lo, cb)
        elif op == "Eq":
            lo = hi = cb
        elif op == "Ne" and cb == 0:
            # unsigned != 0  => >= 1 (callers only use this for unsigned operands)
            lo = 1 if lo is None else max(lo, 1)
    return lo, hi


UNSIGNED_MAX = {"u8": 255, "u16": 65535, "u32": 2**32 - 1, "u64": 2**64 - 1, "usize": 2**64 - 1}
SIGNED_RANGE = {"i8": (-128, 127), "i16": (-32768, 32767), "i32": (-2**31, 2**31 - 1), "i64": (-2**63, 2**63 - 1), "isize": (-2**63, 2**63 - 1)}
BITS = {"u8": 8, "i8": 8, "u16": 16, "i16": 16, "u32": 32, "i32": 32, "u64": 64, "i64": 64, "usize": 64, "isize": 64}


def _op_ty(fn, op, other=None):
    t = _op_ty1(fn, op)
    if t is None and other is not None:
        t = _op_ty1(fn, other)
    return t


def _op_ty1(fn, op):
    if op.get("k") == "const":
        return op.get("ty")
    pl = op.get("pl")
    if pl and not pl["p"]:
        return fn.locals[pl["l"]]
    if pl and pl["p"] == ["*"]:
        t = fn.locals[pl["l"]]
        return t.replace("&mut ", "").replace("&", "")
    return None


class Discharger:
    def __init__(self, prog):
        self.prog = prog
        self._sym = {}
        self._lift = {}
        self._comp_ok = None

    def sym(self, fn):
        if fn.id not in self._sym:
            self._sym[fn.id] = Sym(self.prog, fn)
        return self._sym[fn.id]

    # returns (rule, explanation) or None
    def discharge(self, site):
        fn = site.fn
        S = self.sym(fn)
        facts = S.bool_facts_at(site.block)
        t = site.term
        if site.kind == "assert":
            msg = t["msg"]
            mops = t["mops"]
            if msg in ("Overflow:Shl", "Overflow:Shr"):
                c = mops[1].get("int") if mops[1].get("k") == "const" else None
                ty = _op_ty(fn, mops[0], mops[1] if len(mops) > 1 else None)
                if c is not None and ty in BITS and 0 <= c < BITS[ty]:
                    return ("CONST-SHIFT", "shift by constant %d < %d bits" % (c, BITS[ty]))
                return None
            if msg == "OverflowNeg":
                # `-CONST` overflows only for the minimum of the type
                ty = _op_ty(fn, mops[0], None)
                c = mops[0].get("int") if mops[0].get("k") == "const" else _const(S.val(mops[0]))
                if c is not None and ty in SIGNED_RANGE and c != SIGNED_RANGE[ty][0]:
                    return ("CONST-NEG", "negation of the constant %d, which is not %s::MIN" % (c, ty))
                return None
            if msg in ("DivisionByZero", "RemainderByZero"):
                div = self._divisor(fn, t)
                if div is not None:
                    if div.get("k") == "const" and div.get("int") not in (None, 0):
                        return ("CONST-DIV", "divisor is the non-zero constant %d" % div["int"])
                    dv = S.val(div)
                    g = _cmp_true(facts, dv, "Gt", "c:0") or _cmp_true(facts, dv, "Ne", "c:0")
                    if g is not None:
                        return ("NONZERO-DOM", "divisor %s is tested non-zero in bb%d" % (dv, g))
                    # match arm `(_, Int(0)) => ...` precedes: integer switch on the divisor excludes 0
                    for (e, truth, d) in facts:
                        if e == dv and truth is True:
                            return ("NONZERO-DOM", "divisor %s != 0 by the switch in bb%d" % (dv, d))
                        if e == dv and not isinstance(truth, bool) and truth[0] == "notin" and 0 in truth[1]:
                            return ("NONZERO-DOM", "divisor %s != 0 by the switch in bb%d" % (dv, d))
                return None
            if msg in ("Overflow:Div", "Overflow:Rem"):
                # x / y overflows only for y == -1 (signed)
                ty = _op_ty(fn, mops[0], mops[1] if len(mops) > 1 else None)
                if ty in UNSIGNED_MAX:
                    return ("CONST-DIV", "unsigned division cannot overflow")
                if mops[1].get("k") == "const" and mops[1].get("int") not in (None, -1):
                    return ("CONST-DIV", "divisor constant is not -1")
                return None
            if msg == "Overflow:Sub":
                a, b = S.val(mops[0]), S.val(mops[1])
                g = _cmp_true(facts, a, "Ge", b)
                if g is not None:
                    return ("CMP-DOM", "%s >= %s established in bb%d" % (a, b, g))
                cb = _const(b)
                ty = _op_ty(fn, mops[0], mops[1] if len(mops) > 1 else None)
                if cb is not None and ty in UNSIGNED_MAX:
                    lo, hi = _bounds_from_facts(facts, a)
                    if lo is not None and lo >= cb:
                        return ("CMP-DOM", "%s >= %d from dominating comparison" % (a, lo))
                return self._interval(fn, t, "sub") or self._affine(fn, S, facts, mops, "sub")
            if msg == "Overflow:Mul":
                return self._interval(fn, t, "mul")
            if msg == "Overflow:Add":
                a, b = S.val(mops[0]), S.val(mops[1])
                ty = _op_ty(fn, mops[0], mops[1] if len(mops) > 1 else None)
                cb = _const(b)
                if cb is not None and ty in UNSIGNED_MAX:
                    lo, hi = _bounds_from_facts(facts, a)
                    if hi is not None and hi + cb <= UNSIGNED_MAX[ty]:
                        return ("CMP-DOM", "%s <= %d from dominating comparison, +%d fits %s" % (a, hi, cb, ty))
                    if cb == 1:
                        for (e, truth, g) in facts:
                            sb = split_bin(e) if isinstance(truth, bool) else None
                            if sb and ((sb[0] == a and sb[1] == "Lt" and truth) or (sb[0] == a and sb[1] == "Ge" and not truth)
                                       or (sb[2] == a and sb[1] == "Gt" and truth) or (sb[2] == a and sb[1] == "Le" and not truth)):
                                return ("CMP-DOM", "%s is strictly below another %s value (bb%d), so +1 cannot overflow" % (a, ty, g))
                if cb == 1 and self._get_some(fn, S, facts, a):
                    return ("GET-SOME", "%s indexes an existing element (slice::get returned Some on this path), so it is below the length and +1 cannot overflow" % a)
                return self._interval(fn, t, "add") or self._affine(fn, S, facts, mops, "add")
            if msg == "BoundsCheck":
                ln, ix = S.val(mops[0]), S.val(mops[1])
                if fn.kind == "Closure" and getattr(fn, "owner", None) is not None:
                    # inside a closure: see the index and the collection in the creator's terms (captures, combinator argument)
                    L = self._lifted(fn)
                    if L is not None:
                        ln, ix = L.lift(ln), L.lift(ix)
                        facts = L.facts_at(site.block)
                        S = L.S
                        bs = self._bsearch_same_slice(L.owner, S, ln, ix)
                        if bs:
                            return bs
                else:
                    bs = self._bsearch_same_slice(fn, S, ln, ix)
                    if bs:
                        return bs
                cl, ci = _const(ln), _const(ix)
                if cl is not None and ci is not None and 0 <= ci < cl:
                    return ("CONST-INDEX", "constant index %d < constant length %d" % (ci, cl))
                alts = [ln]
                m = re.fullmatch(r"\(PtrMetadata (.*)\)", ln)
                if m:
                    x = m.group(1)
                    alts += ["core::slice::<impl [T]>::len(&*%s)" % x, "core::slice::<impl [T]>::len(%s)" % x, "core::slice::<impl [T]>::len(&%s)" % x]
                    mm = re.fullmatch(r"&?\*?<std::vec::Vec<T, A> as std::ops::Deref>::deref\((.*)\)", x)
                    if mm:
                        alts.append("std::vec::Vec::<T, A>::len(%s)" % mm.group(1))
                for l2 in alts:
                    g = _cmp_true(facts, ix, "Lt", l2)
                    if g is not None:
                        return ("CMP-DOM", "%s < %s established in bb%d" % (ix, l2, g))
                return self._index_guard(S, facts, ln_expr=ln, coll=None, ix=ix)
            return None
        # calls
        d = site.detail
        if d == "index":
            args = t["args"]
            if len(args) == 2:
                coll, ix = S.val(args[0]), S.val(args[1])
                r = self._index_guard(S, facts, ln_expr=None, coll=coll, ix=ix)
                if r:
                    return r
            return None
        if "to_rfc2822" in d or (t.get("callee") or "").endswith("to_rfc2822"):
            if self._year_guard(fn, S, facts, t):
                return ("YEAR-RANGE", "the date's year is tested to lie in 0..=9999 on this path, the range RFC 2822 can express")
            return None
        if d.startswith("Duration::new"):
            from ..interval import Interval
            iv = Interval(self.prog, fn, S)
            n = iv.of(t["args"][1])
            if n is not None and 0 <= n[0] and n[1] < 1_000_000_000:
                return ("INTERVAL", "nanoseconds argument in [%d,%d] < 10^9: no carry into seconds" % n)
            return None
        if d.startswith("unwrap") or d.startswith("expect"):
            a = S.val(t["args"][0])
            # VARIANT-DOM: the value's variant was tested on this path (`let Ok(x) = r else { .. r.unwrap_err() .. }`, `if r.is_none() { return } r.unwrap()` as a match)
            callee_ = t.get("callee") or ""
            need = None
            if re.search(r"Option::<T>::(unwrap|expect)$", callee_):
                need = 1
            elif re.search(r"Result::<T, E>::(unwrap|expect)$", callee_):
                need = 0
            elif re.search(r"Result::<T, E>::(unwrap_err|expect_err)$", callee_):
                need = 1
            arg_l = t["args"][0].get("pl", {}).get("l")
            mut_borrowed = any(st["rhs"]["rv"] == "ref" and st["rhs"].get("mut") and st["rhs"]["pl"]["l"] == arg_l
                               for bl in fn.blocks if not bl["cleanup"] for st in bl["stmts"])
            if need is not None and not mut_borrowed:
                # (a value that is never mutably borrowed cannot have changed variant between the test and the call)
                for (e, truth, g) in facts:
                    if e == "discr(%s)" % a.lstrip("&*") and (truth == ("==", need) or (isinstance(truth, tuple) and truth[0] in ("notin", "!=") and
                                                                                         (set(truth[1]) if truth[0] == "notin" else {truth[1]}) == {1 - need})):
                        return ("VARIANT-DOM", "the variant of %s was tested in bb%d" % (a[:60], g))
            # MAP-GET
            m = re.match(r"(.*)::get\((.*)\)$", a)
            if m:
                want = "%s::contains_key(%s)" % (m.group(1), m.group(2))
                for (e, truth, g) in facts:
                    if e == want and truth is True:
                        return ("MAP-GET", "get(..).unwrap() dominated by contains_key on the same map and key in bb%d" % g)
            # get_column(name).unwrap() dominated by has_column(name)
            m = re.match(r"(.*)::(get_column|index_for_column_name)\((.*)\)$", a)
            if m:
                recv_args = m.group(3)
                for (e, truth, g) in facts:
                    mm = re.match(r"(.*)::has_column\((.*)\)$", e)
                    if mm and truth is True and _same_args(mm.group(2), recv_args):
                        return ("MAP-GET", "%s(..).unwrap() dominated by has_column on the same table and name in bb%d" % (m.group(2), g))
            # COMP-SOME
            if re.search(r"\.comp\b", a) and fn.file.endswith("package.rs"):
                if self.comp_invariant():
                    return ("COMP-SOME", "`comp` is Some: it is set to None only by take() in into_inner, which consumes self")
            # CONST-UUID
            m = re.search(r"parse_str\([&*]*s:'([^']*)'\)$", a)
            UU = r"[0-9A-Fa-f]{8}-[0-9A-Fa-f]{4}-[0-9A-Fa-f]{4}-[0-9A-Fa-f]{4}-[0-9A-Fa-f]{12}"
            if m and re.fullmatch(UU, m.group(1)):
                return ("CONST-UUID", "argument is the well-formed UUID literal %s" % m.group(1))
            m = re.search(r"parse_str\([&*]*(_\d+)\)$", a)
            if m:
                # the text is chosen by a match: every definition of that local is a well-formed UUID literal
                ds = S.du.origins({"l": int(m.group(1)[1:]), "p": []})
                lits = [o[1].get("str") for o in ds if o[0] == "const"]
                if ds and len(lits) == len(ds) and all(x is not None and re.fullmatch(UU, x) for x in lits):
                    return ("CONST-UUID", "argument is one of the well-formed UUID literals %s" % sorted(lits))
            return None
        return None

    def _year_guard(self, fn, S, facts, t):
        """to_rfc2822(dt) under a dominating `(0..=9999).contains(&dt.year())` (or the two comparisons)"""
        from ..lib import call_of, interval_of
        recv = S.val(t["args"][0]).lstrip("&*")
        for (e, truth, g) in facts:
            if truth is True and "RangeInclusive::<Idx>::contains(" in e and "Datelike>::year" in e:
                m = re.search(r"contains\(&(call@\d+:[^,]*),", e)
                cn, ca = call_of(S, m.group(1)) if m else (None, [])
                if cn and cn.endswith("RangeInclusive::<Idx>::new") and len(ca) >= 2 and ca[0] in ("c:0", "c:1") and ca[1] == "c:9999":
                    return True
                # a constant range is promoted: its construction lives in one of the function's promoted bodies
                owners = {fn.name} | {bl.get("inl_from") for bl in fn.blocks if bl.get("inl_from")}
                for pname, pf in self.prog.promoted.items():
                    if not any(pname.startswith(o_ + "::promoted[") for o_ in owners):
                        continue
                    for bl in pf.blocks:
                        tt = bl["term"]
                        if tt["t"] == "call" and (tt.get("callee") or "").endswith("RangeInclusive::<Idx>::new"):
                            av = [a.get("int") for a in tt["args"]]
                            if len(av) >= 2 and av[0] in (0, 1) and av[1] == 9999:
                                return True
        # `match dt.year() { 0..=9999 => dt.to_rfc2822(), .. }`: the year is a call result compared with the two bounds
        for (e, tr, g) in facts:
            for mm in re.finditer(r"call@(\d+):<chrono::DateTime<Tz> as chrono::Datelike>::year", e):
                yt = fn.blocks[int(mm.group(1))]["term"]
                if yt["t"] == "call" and S.val(yt["args"][0]).lstrip("&*") == recv:
                    lo, hi, ex = interval_of(facts, mm.group(0))
                    if lo is not None and hi is not None and lo >= 0 and hi <= 9999:
                        return True
        yexpr = [e for (e, tr, g) in facts if "Datelike>::year(" in e]
        for e in yexpr:
            mm = re.search(r"(<chrono::DateTime<Tz> as chrono::Datelike>::year\([^()]*(\([^()]*\))*[^()]*\))", e)
            if mm:
                lo, hi, ex = interval_of(facts, mm.group(1))
                if lo is not None and hi is not None and lo >= 0 and hi <= 9999:
                    return True
        return False

    def _get_some(self, fn, S, facts, ix):
        """a dominating fact says `<[T]>::get(_, ix)` (or Vec::get) was Some: directly, or through the Continue edge of `?`"""
        for (e, truth, g) in facts:
            if isinstance(truth, bool):
                continue
            m = re.fullmatch(r"discr\(call@(\d+):<std::option::Option<T> as std::ops::Try>::branch\)", e)
            inner = None
            if m and truth == ("==", 0):
                inner = S.val(fn.blocks[int(m.group(1))]["term"]["args"][0])
            elif truth == ("==", 1) and e.startswith("discr(") and "::get(" in e:
                inner = e[6:-1]
            if inner and re.search(r"(<impl \[T\]>|Vec::<T, A>)::get\(.*,%s\)$" % re.escape(ix), inner):
                return True
        return False

    def _affine(self, fn, S, facts, mops, what):
        """both operands affine in one variable whose interval the dominating facts give (comparisons with constants, range patterns,
        char-class predicates): the result stays inside the operand type"""
        from ..lib import affine, interval_of
        ty = _op_ty(fn, mops[0], mops[1] if len(mops) > 1 else None)
        if ty not in BITS:
            return None
        a, b = S.val(mops[0]), S.val(mops[1])
        for var in sorted(set(re.findall(r"\bp\d+\b|\b_\d+\b", a + " " + b))):
            x, y = affine(a, var), affine(b, var)
            if x is None or y is None:
                continue
            lo, hi, ex = interval_of(facts, var)
            if lo is None and hi is None:
                continue
            # an unsigned operand type bounds the variable on the side the tests leave open (only when the variable itself has that type: no cast in between)
            vty = fn.locals[int(var[1:])] if re.fullmatch(r"p\d+|_\d+", var) and int(var[1:]) < len(fn.locals) else None
            if vty in UNSIGNED_MAX:
                lo = 0 if lo is None else lo
                hi = UNSIGNED_MAX[vty] if hi is None else hi
            if lo is None or hi is None:
                continue
            k = (x[0] + y[0], x[1] + y[1]) if what == "add" else (x[0] - y[0], x[1] - y[1])
            vals = [k[0] * lo + k[1], k[0] * hi + k[1]]
            # the operands themselves must fit as well
            for (c0, c1) in (x, y):
                vals += [c0 * lo + c1, c0 * hi + c1]
            tlo, thi = (0, UNSIGNED_MAX[ty]) if ty in UNSIGNED_MAX else SIGNED_RANGE[ty]
            if tlo <= min(vals) and max(vals) <= thi:
                return ("AFFINE-INTERVAL", "%s in [%d,%d] by the dominating tests; %s %s %s stays in [%d,%d] within %s" % (var, lo, hi, a, what, b, min(vals), max(vals), ty))
        return None

    def _interval(self, fn, t, what):
        from ..interval import Interval
        iv = Interval(self.prog, fn, self.sym(fn))
        mops = t["mops"]
        ty = _op_ty(fn, mops[0], mops[1] if len(mops) > 1 else None)
        if ty not in BITS:
            return None
        a, b = iv.of(mops[0]), iv.of(mops[1])
        if a is None or b is None:
            return None
        if what == "add":
            lo, hi = a[0] + b[0], a[1] + b[1]
        elif what == "mul":
            c = [a[0] * b[0], a[0] * b[1], a[1] * b[0], a[1] * b[1]]
            lo, hi = min(c), max(c)
        elif what == "sub":
            lo, hi = a[0] - b[1], a[1] - b[0]
        else:
            return None
        tlo, thi = (0, UNSIGNED_MAX[ty]) if ty in UNSIGNED_MAX else SIGNED_RANGE[ty]
        if tlo <= lo and hi <= thi:
            return ("INTERVAL", "operands in [%d,%d] and [%d,%d]; result in [%d,%d] fits %s" % (a[0], a[1], b[0], b[1], lo, hi, ty))
        return None

    def _divisor(self, fn, t):
        """operand that is the divisor for a DivisionByZero/RemainderByZero assert: cond = Eq(divisor, 0)"""
        S = self.sym(fn)
        c = t["cond"]
        l = c.get("pl", {}).get("l")
        if l is None:
            return None
        ds = S.du.whole_defs(l)
        if len(ds) == 1 and ds[0][2] == "stmt" and ds[0][3]["rhs"]["rv"] == "bin" and ds[0][3]["rhs"]["op"] == "Eq":
            ops = ds[0][3]["rhs"]["ops"]
            return ops[0]
        return None

    def _index_guard(self, S, facts, ln_expr, coll, ix):
        """index `ix` into collection `coll` (symbolic &place) guarded by a len comparison / const index by len>k"""
        lens = []
        if ln_expr:
            lens.append(ln_expr)
        if coll:
            c0 = coll
            variants = {c0}
            # Vec deref'd to slice and back: normalise common wrappers
            m = re.match(r".*::deref\((.*)\)$", c0)
            if m:
                variants.add(m.group(1))
            for v in list(variants):
                lens.append("std::vec::Vec::<T, A>::len(%s)" % v)
                lens.append("core::slice::<impl [T]>::len(%s)" % v)
                lens.append("core::slice::<impl [T]>::len(<std::vec::Vec<T, A> as std::ops::Deref>::deref(%s))" % v)
                lens.append("std::string::String::len(%s)" % v)
                lens.append("core::str::<impl str>::len(%s)" % v)
        for ln in lens:
            g = _cmp_true(facts, ix, "Lt", ln)
            if g is not None:
                return ("CMP-DOM", "index %s < %s established in bb%d" % (ix, ln, g))
            ci = _const(ix)
            if ci is not None:
                lo, hi = _bounds_from_facts(facts, ln)
                if lo is not None and lo > ci:
                    return ("LEN-DOM", "constant index %d, length >= %d from dominating comparison" % (ci, lo))
        # !is_empty for index 0
        if coll and _const(ix) == 0:
            for (e, truth, g) in facts:
                if truth is False and e.endswith("::is_empty(%s)" % coll):
                    return ("LEN-DOM", "index 0 dominated by !is_empty() in bb%d" % g)
        # RANGE-IDX: ix is produced by a `0..coll.len()` range (for index in 0..v.len() { v[index] })
        m = re.fullmatch(r"call@(\d+):(?:<std::ops::Range<\w+> as std::iter::Iterator>|std::iter::range::<impl std::iter::Iterator for std::ops::Range<A>>)::next@Some\.0", ix)
        if m and coll:
            t = S.fn.blocks[int(m.group(1))]["term"]
            if t["t"] == "call":
                rv = S.val(t["args"][0])
                mr = re.search(r"Range\{c:0,(?:std::vec::Vec::<T, A>|core::slice::<impl \[T\]>)::len\(([^{}]*)\)\}", rv)

                def core_(x):
                    x = re.sub(r"<std::vec::Vec<T, A> as std::ops::Deref(Mut)?>::deref(_mut)?", "", x)
                    return re.sub(r"[&*()]", "", x)
                if mr and core_(mr.group(1)) == core_(coll):
                    return ("RANGE-IDX", "index runs over 0..len of the same collection")
        # POSITION-IDX: ix is the Some payload of Iterator::position / rposition over an iterator of the very collection being indexed
        m = re.fullmatch(r"call@(\d+):.*Iterator>?::(position|rposition)@Some\.0", ix)
        if m and coll:
            t = S.fn.blocks[int(m.group(1))]["term"]
            if t["t"] == "call":
                def core(x):
                    x = re.sub(r"<std::vec::Vec<T, A> as std::ops::Deref(Mut)?>::deref(_mut)?|core::slice::<impl \[T\]>::iter(_mut)?|<I as std::iter::IntoIterator>::into_iter", "", x)
                    return re.sub(r"[&*()]", "", x)
                recv = S.val(t["args"][0])
                if core(coll) and core(recv) == core(coll) and "Iterator::" not in recv.replace("Iterator::position", ""):
                    return ("POSITION-IDX", "index is the position of an element found by iterating the same collection (in bounds by contract)")
        return None

    def _lifted(self, closure):
        from ..lib import lifted_closures
        owner = closure.owner if not isinstance(closure.owner, str) else self.prog.fns.get(closure.owner)
        if owner is None:
            return None
        key = owner.id
        if key not in self._lift:
            self._lift[key] = {L.fn.id: L for L in lifted_closures(self.prog, owner, self.sym(owner))}
        return self._lift[key].get(closure.id)

    def _bsearch_same_slice(self, fn, S, ln, ix):
        """BSEARCH-IDX: ix is the Ok payload of a binary_search* call in fn whose receiver is the very slice being indexed"""
        m = re.fullmatch(r"call@(\d+):.*binary_search[a-z_]*@Ok\.0", ix)
        ml = re.fullmatch(r"\(PtrMetadata (.*)\)", ln)
        if not (m and ml):
            return None
        t = fn.blocks[int(m.group(1))]["term"]
        if t["t"] != "call" or "binary_search" not in (t.get("callee") or ""):
            return None

        def norm(x):
            return re.sub(r"[&*]", "", x)
        if norm(S.val(t["args"][0])) == norm(ml.group(1)):
            return ("BSEARCH-IDX", "index is the Ok payload of a binary search over the same slice (in-bounds by contract)")
        return None

    def comp_invariant(self):
        """`comp` field: never assigned None, Option::take on it only in into_inner"""
        if self._comp_ok is not None:
            return self._comp_ok
        ok = True
        for f in self.prog.fns.values():
            if f.crate != "msi":
                continue
            S = None
            for b in f.blocks:
                if b["cleanup"]:
                    continue
                for s in b["stmts"]:
                    names = [e["n"] for e in s["lhs"]["p"] if isinstance(e, dict) and "f" in e]
                    if names and names[-1] == "comp" and "Package" in f.locals[s["lhs"]["l"]]:
                        ok = False
                t = b["term"]
                if t["t"] == "call" and (t.get("callee") or "").endswith("Option::<T>::take"):
                    S = S or self.sym(f)
                    a = S.val(t["args"][0])
                    if re.search(r"\.comp\b", a) and not f.path.endswith("::into_inner"):
                        ok = False
        self._comp_ok = ok
        return ok


def _same_args(a, b):
    def norm(s):
        for w in ("<std::rc::Rc<T, A> as std::ops::Deref>::deref", "<std::string::String as std::ops::Deref>::deref",
                  "std::string::String::as_str"):
            s = s.replace(w, "")
        return s.replace("&", "").replace("*", "").replace("(", "").replace(")", "")
    return norm(a) == norm(b)


# --------------------------------------------------------------------------- #


def load_justified():
    with open(os.path.join(VERIF, "tables", "panic_justified.json")) as f:
        return json.load(f)["entries"]


class Inventory:
    def __init__(self, prog):
        self.prog = prog
        self.cg = CallGraph(prog)
        self.dis = Discharger(prog)
        self.sites = {}
        for f in prog.fns.values():
            if f.crate in ("msi", "msi_ffi"):
                ss = sites_of(prog, f)
                if ss:
                    self.sites[f.id] = ss
        self.just = load_justified()

    def entries_exported(self, crate="msi"):
        return [f for f in self.prog.fns.values() if f.crate == crate and f.exported and f.kind in ("Fn", "AssocFn")]

    def run(self, ctx, rule, entries, only=None, exclude_fn=None, label=""):
        """reports every reachable, un-discharged, un-justified site. only(fn)->bool restricts the sites
        considered (by module), exclude_fn(fn) drops documented-contract panics."""
        prog = self.prog
        reach = self.cg.closure(entries)
        n_sites = 0
        per_key = {}
        for fid in reach:
            f = prog.fns[fid]
            if f.crate == "cfb":
                continue
            if only and not only(f):
                continue
            if exclude_fn and exclude_fn(f):
                continue
            for s in self.sites.get(fid, []):
                n_sites += 1
                d = self.dis.discharge(s)
                inst = "%s %s" % (_owner_name(f), s.cls)
                if d:
                    ctx.ok(rule, inst, "%s: %s" % d, s.loc)
                    continue
                per_key.setdefault((_owner_name(f), self._canon_cls(_owner_name(f), s.cls)), []).append(s)
        for (fname, cls), ss in sorted(per_key.items()):
            j = self._justification(fname, cls)
            allowed = j["max"] if j else 0
            inst = "%s %s" % (fname, cls)
            if j and len(ss) <= allowed and self._requires_ok(j, ss):
                for s in ss:
                    ctx.justified(rule, inst, j["reason"], s.loc)
                continue
            why = "no guard rule discharges this panic edge and no justification covers it" if not j else (
                "%d sites of this class, justification covers %d (%s)" % (len(ss), allowed, j["reason"]))
            if j and len(ss) <= allowed:
                why = "justification's required guard no longer holds: %s" % j.get("requires")
            path = self.cg.path(entries, ss[0].fn.id)
            ctx.violation(rule, inst,
                          "unproven panic site(s) reachable from %s: %s; %s" % (
                              label or "the entry set", ", ".join(s.loc for s in ss), why),
                          ss[0].loc, fn=fname, path=path, key="%s|%s|%s" % (rule, fname, cls))
        ctx.extra.setdefault("panic_inventory", {})[rule] = dict(entries=len(entries), reachable_fns=len(reach), sites=n_sites)
        return n_sites

    def _canon_cls(self, fname, cls):
        """`v[i]` on a Vec is a call of Index::index, on a slice a BoundsCheck assertion: one class as far as a justification about the index is concerned"""
        twin = {"call:index": "assert:BoundsCheck", "assert:BoundsCheck": "call:index"}.get(cls)
        if twin and self._justification(fname, cls) is None and self._justification(fname, twin) is not None:
            return twin
        return cls

    def _justification(self, fname, cls):
        for j in self.just:
            if j["fn"] == fname and j["cls"] == cls:
                return j
        return None

    def _requires_ok(self, j, ss):
        req = j.get("requires")
        if not req:
            return True
        # every site must be dominated by a true-branch of each required predicate call
        for s in ss:
            S = self.dis.sym(s.fn)
            facts = S.bool_facts_at(s.block)
            for r in req:
                want_truth = not r.startswith("!")
                pat = r.lstrip("!")
                if not any((pat in e) and (truth is want_truth) for (e, truth, g) in facts if isinstance(truth, bool)):
                    return False
        return True


def _owner_name(f):
    return (f.owner or f).name if f.kind == "Closure" else f.name
