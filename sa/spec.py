"""Specialising a function body to an assumption about a discriminant: the switches decided by the assumption become gotos, blocks that
are no longer reachable are hidden, and flag locals that become constants are propagated through the switches they decide. Rules that
reason "per enum variant" use the specialised view, so merged match arms (or-patterns, a keyword chosen by `matches!`) look like the
separate arms they are equivalent to."""
import copy
import re

from .facts import Fn
from .sym import Sym


def _prune(g):
    g._succ = None
    g._preds = None
    succs = g.succs()
    seen, st = set(), [0]
    while st:
        b = st.pop()
        if b in seen:
            continue
        seen.add(b)
        st.extend(succs[b])
    for bl in g.blocks:
        if bl["id"] not in seen and not bl["cleanup"]:
            bl["cleanup"] = True
            bl["dead"] = True
    g._succ = None
    g._preds = None


def fold(v):
    """constant folding on a symbolic value: Not / Eq / Ne / BitAnd / BitOr over c:N operands"""
    # the discriminant of an aggregate built on this path
    md = re.fullmatch(r"discr\((?:std::option::Option|std::result::Result)::(None|Some|Ok|Err)\{.*\}\)", v)
    if md:
        return "c:%d" % {"None": 0, "Some": 1, "Ok": 0, "Err": 1}[md.group(1)]
    prev = None
    while prev != v:
        prev = v
        v = re.sub(r"\(Not c:([01])\)", lambda m: "c:%d" % (1 - int(m.group(1))), v)
        v = re.sub(r"\(c:(-?\d+) (Eq|Ne) c:(-?\d+)\)", lambda m: "c:%d" % int((int(m.group(1)) == int(m.group(3))) == (m.group(2) == "Eq")), v)
        v = re.sub(r"\(c:([01]) (BitAnd|BitOr|BitXor) c:([01])\)", lambda m: "c:%d" % {"BitAnd": int(m.group(1)) & int(m.group(3)), "BitOr": int(m.group(1)) | int(m.group(3)),
                                                                                      "BitXor": int(m.group(1)) ^ int(m.group(3))}[m.group(2)], v)
    return v


def specialise(prog, fn, discr_expr=None, value=None, rounds=8, discr=None, calls=None):
    """copy of fn under assumptions: `discr` maps the symbolic spelling of a switch operand to its value (the positional pair discr_expr/value is one such
    entry), `calls` maps the block of a call to the constant its result is assumed to have. Decided switches become gotos, blocks no longer reachable are
    hidden, and switches on values that fold to constants are decided in turn (conditional constant propagation)."""
    discr = dict(discr or {})
    if discr_expr is not None:
        discr[discr_expr] = value
    raw = copy.deepcopy(fn.raw)
    raw["blocks"] = copy.deepcopy(fn.blocks)
    raw["locals"] = list(fn.locals)
    g = Fn(fn.crate, raw)
    g.owner, g.closures = fn.owner, fn.closures
    S0 = Sym(prog, fn)
    for bl in g.blocks:
        t = bl["term"]
        if t["t"] == "switch" and not bl["cleanup"] and S0.val(t["discr"]) in discr:
            v = discr[S0.val(t["discr"])]
            tgt = next((c[1] for c in t["cases"] if c[0] == v), t["otherwise"])
            bl["term"] = {"t": "goto", "succ": [tgt], "sp": t.get("sp")}
    for b, v in (calls or {}).items():
        bl = g.blocks[b]
        t = bl["term"]
        if t["t"] == "call" and t.get("succ"):
            bl["stmts"].append({"lhs": t["dest"], "rhs": {"rv": "use", "ops": [{"k": "const", "ty": "bool", "int": v, "bits": 8}]}, "sp": t.get("sp")})
            bl["term"] = {"t": "goto", "succ": [t["succ"][0]], "sp": t.get("sp"), "assumed_call": t.get("callee")}
    for _ in range(rounds):
        _prune(g)
        S = Sym(prog, g)
        changed = False
        for bl in g.blocks:
            t = bl["term"]
            if t["t"] != "switch" or bl["cleanup"]:
                continue
            m = re.fullmatch(r"c:(-?\d+)", fold(S.val(t["discr"])))
            if m:
                v = int(m.group(1))
                tgt = next((c[1] for c in t["cases"] if c[0] == v), t["otherwise"])
                bl["term"] = {"t": "goto", "succ": [tgt], "sp": t.get("sp")}
                changed = True
        if not changed:
            break
    _prune(g)
    return g
