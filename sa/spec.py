"""Specialising a function body to an assumption about a discriminant: the switches decided by the assumption become gotos, blocks that
are no longer reachable are hidden, and flag locals that become constants are propagated through the switches they decide. Rules that
reason "per enum variant" use the specialised view, so merged match arms (or-patterns, a keyword chosen by `matches!`) look like the
separate arms they are equivalent to."""
import copy
import re

from .facts import Fn
from .sym import Sym


def _prune(g):
    g._succ = None
    g._preds = None
    succs = g.succs()
    seen, st = set(), [0]
    while st:
        b = st.pop()
        if b in seen:
            continue
        seen.add(b)
        st.extend(succs[b])
    for bl in g.blocks:
        if bl["id"] not in seen and not bl["cleanup"]:
            bl["cleanup"] = True
            bl["dead"] = True
    g._succ = None
    g._preds = None


def specialise(prog, fn, discr_expr, value, rounds=6):
    """copy of fn under the assumption `discr_expr == value` (discr_expr: the symbolic spelling of a switch operand in fn)"""
    raw = copy.deepcopy(fn.raw)
    g = Fn(fn.crate, raw)
    g.owner, g.closures = fn.owner, fn.closures
    S0 = Sym(prog, fn)
    for bl in g.blocks:
        t = bl["term"]
        if t["t"] == "switch" and not bl["cleanup"] and S0.val(t["discr"]) == discr_expr:
            tgt = next((c[1] for c in t["cases"] if c[0] == value), t["otherwise"])
            bl["term"] = {"t": "goto", "succ": [tgt], "sp": t.get("sp")}
    for _ in range(rounds):
        _prune(g)
        S = Sym(prog, g)
        changed = False
        for bl in g.blocks:
            t = bl["term"]
            if t["t"] != "switch" or bl["cleanup"]:
                continue
            m = re.fullmatch(r"c:(-?\d+)", S.val(t["discr"]))
            if m:
                v = int(m.group(1))
                tgt = next((c[1] for c in t["cases"] if c[0] == v), t["otherwise"])
                bl["term"] = {"t": "goto", "succ": [tgt], "sp": t.get("sp")}
                changed = True
        if not changed:
            break
    _prune(g)
    return g
