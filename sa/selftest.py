"""Engine self-test on the canary crate: positive/negative controls for the generic machinery, run on every check."""
import fcntl
import hashlib
import json
import os
import shutil
import subprocess
import tempfile

from . import facts
from .flow import DefUse
from .sym import Sym

CAN = os.path.join(facts.VERIF, "canary")


def _extract():
    facts.ensure_driver()
    h = hashlib.sha256()
    for p in (os.path.join(CAN, "src", "lib.rs"), facts.DRIVER):
        with open(p, "rb") as f:
            h.update(f.read())
    out = os.path.join(facts.CACHE, "canary-" + h.hexdigest()[:20])
    os.makedirs(facts.CACHE, exist_ok=True)
    lock = open(os.path.join(facts.CACHE, ".lock-canary"), "w")
    fcntl.flock(lock, fcntl.LOCK_EX)
    try:
        if os.path.exists(os.path.join(out, "canary.json")):
            return out
        tmp = tempfile.mkdtemp(prefix="canary-", dir=facts.CACHE)
        target = tempfile.mkdtemp(prefix="verif-canary-")
        try:
            env = dict(os.environ, LD_LIBRARY_PATH=facts._sysroot() + "/lib", RUSTFLAGS=facts.CONFIGS["dev"], RUSTC_WRAPPER=facts.DRIVER,
                       MIRFACTS_OUT=tmp, MIRFACTS_CRATES="canary", CARGO_TARGET_DIR=target, CARGO_NET_OFFLINE="true")
            for attempt in range(3):
                r = subprocess.run(["cargo", "+nightly", "check", "--offline", "--lib"], cwd=CAN, env=env, stdout=subprocess.PIPE, stderr=subprocess.STDOUT, text=True)
                if r.returncode == 0 and os.path.exists(os.path.join(tmp, "canary.json")):
                    break
                import time as _t
                _t.sleep(2 + 3 * attempt)
                shutil.rmtree(target, ignore_errors=True)
                os.makedirs(target, exist_ok=True)
            if r.returncode != 0 or not os.path.exists(os.path.join(tmp, "canary.json")):
                raise SystemExit("ENGINE-ERROR: canary crate does not build under the extractor\n" + r.stdout[-2000:])
            os.rename(tmp, out)
        finally:
            shutil.rmtree(target, ignore_errors=True)
            shutil.rmtree(tmp, ignore_errors=True)
        return out
    finally:
        fcntl.flock(lock, fcntl.LOCK_UN)
        lock.close()


class MiniProg:
    """just enough of Program for the generic engines"""
    def __init__(self, d):
        self.fns = {}
        self.by_name = {}
        self.promoted = {}
        self.adts = {}
        self.consts = {}
        with open(os.path.join(d, "canary.json")) as f:
            raw = json.load(f)
        for b in raw["bodies"]:
            fn = facts.Fn("canary", b)
            if fn.kind == "Promoted":
                self.promoted[fn.name] = fn
            else:
                self.fns[fn.id] = fn
                self.by_name[fn.name] = [fn]
        for a in raw["adts"]:
            self.adts["canary::" + a["path"]] = a

    def callee_fn(self, t):
        for k in ("rid", "cid"):
            if t.get(k) in self.fns:
                return self.fns[t[k]]
        return None

    def fn(self, name):
        return self.by_name[name][0]

    def unit(self, fn):
        return [fn] + list(fn.closures)


def run(ctx):
    from .rules import errs, panic
    from . import tables
    R = "ENGINE-CANARY"
    ctx.rule(R, "positive and negative controls on /verif/canary, analysed by the same driver and engine: known panic edges are found and left undischarged, guarded ones are "
                "discharged by the expected guard rule, discarded io::Results are classified as such, a match table is recovered; a miss fails the check (engine broken)")
    prog = MiniProg(_extract())
    dis = panic.Discharger(prog)
    exp = {
        "unguarded_index": ("assert:BoundsCheck", None), "guarded_index": ("assert:BoundsCheck", "CMP-DOM"), "unwrap_input": ("call:unwrap(Err)", None),
        "add": ("assert:Overflow:Add", None), "const_shift": ("assert:Overflow:Shl", "CONST-SHIFT"), "guarded_sub": ("assert:Overflow:Sub", "CMP-DOM"),
        "small_product": ("assert:Overflow:Mul", "INTERVAL"),
    }
    for name, (cls, want) in exp.items():
        f = prog.fn("canary::" + name)
        ss = [s for s in panic.sites_of(prog, f) if s.cls == cls]
        got = dis.discharge(ss[0])[0] if ss and dis.discharge(ss[0]) else None
        ctx.check(len(ss) >= 1 and got == want, R, "%s: %s" % (name, cls), "discharged by %s" % got if got else "left for triage",
                  "engine self-test: %s should yield a %s site %s, got %d site(s) / %s" % (name, cls, "discharged by " + want if want else "undischarged", len(ss), got),
                  key="%s|%s" % (R, name))
    for name, want in (("dropped_result", "dropped"), ("swallowed", "matched:err-ignored"), ("propagated", "propagated")):
        f = prog.fn("canary::" + name)
        du = DefUse(f)
        tags = set()
        for b, t in f.calls():
            if errs.is_io_result(f.locals[t["dest"]["l"]]) and not (t.get("callee") or "").endswith(("Try::branch", "from_residual")):
                tags |= {"returned"} if t["dest"]["l"] == 0 else errs.classify(f, du, t["dest"]["l"])
        ctx.check(want in tags, R, "%s: io::Result consumption" % name, str(sorted(tags)), "engine self-test: %s should be classified %s, got %s" % (name, want, sorted(tags)), key="%s|%s" % (R, name))
    f = prog.fn("canary::table")
    tab = tables.enum_table(prog, f, "Kind")
    ctx.check(tab == {"A": ("int", 10), "B": ("int", 20), "C": ("int", 30)}, R, "table: match table recovery", str(tab), "engine self-test: match table of canary::table recovered as %s" % (tab,), key=R + "|table")
    f = prog.fn("canary::error_after_mutation")
    S = Sym(prog, f)
    from .lib import error_sites
    from . import cfg
    es = error_sites(prog, f)
    push = [b for b, t in f.calls() if (t.get("callee") or "").endswith("Vec::<T, A>::push")]
    ok = len(es) == 1 and es[0][2] == "InvalidInput" and len(push) == 1 and es[0][0] in cfg.reachable(f, push[0]) and any(e == "p2" and tr is True for (e, tr, g) in S.bool_facts_at(es[0][0]))
    ctx.check(ok, R, "error_after_mutation: error site, kind, reachability, guard fact", "", "engine self-test: error-after-mutation control not recognised", key=R + "|eam")
    from .rules import alloc, loops
    from . import cfg as _cfg
    for name, want in (("alloc_unbounded", False), ("alloc_bounded", True)):
        f = prog.fn("canary::" + name)
        ss = alloc.sites(prog, f)
        got = alloc.bound(prog, f, Sym(prog, f), ss[0][0], ss[0][3])[0] if ss else None
        ctx.check(len(ss) == 1 and got == want, R, "%s: sized allocation" % name, "bounded" if got else "unbounded",
                  "engine self-test: %s should be a sized allocation judged %s, got %s (%d sites)" % (name, "bounded" if want else "unbounded", got, len(ss)), key="%s|%s" % (R, name))
    for name, want in (("loop_counted", False), ("loop_stuck", True), ("loop_iter", False)):
        f = prog.fn("canary::" + name)
        ls = _cfg.natural_loops(f)
        got = [loops.cycle_without(f, h, body, loops.consuming(prog, f, body)) for h, body in ls.items()]
        ctx.check(got == [want], R, "%s: loop progress" % name, "cycle without progress" if want else "every cycle makes progress",
                  "engine self-test: %s should have one loop with non-progress cycle=%s, got %s" % (name, want, got), key="%s|%s" % (R, name))
    # helper inlining: after inline.run the caller contains the helper's guarded index
    from . import inline as _inline
    import copy as _copy
    f = prog.fn("canary::canary_caller")
    before = len(f.blocks)
    known_backup = _inline.load_known
    try:
        _inline.load_known = lambda: {n for n in prog.by_name if not n.endswith("canary_helper")}
        prog.removed_helpers = []
        _inline.run(prog, ws=("canary",))
    finally:
        _inline.load_known = known_backup
    ss = [s for s in panic.sites_of(prog, f) if s.cls == "assert:BoundsCheck"]
    dis2 = panic.Discharger(prog)
    got = dis2.discharge(ss[0])[0] if ss and dis2.discharge(ss[0]) else None
    ctx.check(len(f.blocks) > before and len(ss) == 1 and got == "CMP-DOM" and "canary::canary_helper" not in prog.by_name, R, "inliner: helper body visible in the caller", "%d -> %d blocks" % (before, len(f.blocks)),
              "engine self-test: canary_helper was not inlined into canary_caller (blocks %d -> %d, bounds checks %d, guard %s)" % (before, len(f.blocks), len(ss), got), key=R + "|inline")
    # closure lifting: comparisons inside `is_some_and(|(lo, hi)| ..)` are seen in the creator's terms
    from .lib import unit_comparisons
    f = prog.fn("canary::closure_cmp")
    cmp_ = {(o, x.lstrip("&*"), y.lstrip("&*")) for (o, x, y, fa) in unit_comparisons(prog, f)}
    ctx.check(("Lt", "p2", "p1@Some.0.0") in cmp_ and ("Lt", "p1@Some.0.1", "p2") in cmp_, R, "closure lifting: captured and bound variables", str(sorted(cmp_)),
              "engine self-test: comparisons of closure_cmp's closure not lifted into the creator's terms: %s" % sorted(cmp_), key=R + "|lift")
    from .rules import flush as _flush
    for name, want in (("bufwriter_dropped", False), ("bufwriter_flushed", True)):
        f = prog.fn("canary::" + name)
        ss = _flush.adapter_sites(prog, f)
        ctx.check(len(ss) == 1 and ss[0][1] == want, R, "%s: buffering adapter" % name, str(ss), "engine self-test: %s should have one BufWriter site judged %s, got %s" % (name, want, ss), key="%s|%s" % (R, name))
    from .rules import errs as _errs
    for name, want in (("short_read_discarded", False), ("short_read_counted", True), ("swallowed", True)):
        f = prog.fn("canary::" + name)
        ss = _errs.short_io_sites(prog, f)
        ctx.check(len(ss) == 1 and ss[0][3] == want, R, "%s: short read count" % name, str([(x[2], x[3]) for x in ss]), "engine self-test: %s should have one io::Read::read site with count used = %s, got %s" % (
            name, want, [(x[2], x[3]) for x in ss]), key="%s|%s" % (R, name))
