"""CFG utilities over a Fn (non-cleanup edges only)."""


def reachable(fn, start, avoid=(), succ=None):
    """Blocks reachable from `start` (inclusive) without entering blocks in avoid."""
    succs = succ or fn.succs()
    avoid = set(avoid)
    seen = set()
    st = [start] if start not in avoid else []
    while st:
        b = st.pop()
        if b in seen:
            continue
        seen.add(b)
        for s in succs[b]:
            if s not in seen and s not in avoid:
                st.append(s)
    return seen


def reachable_strict(fn, start, avoid=()):
    """Blocks reachable from `start` by at least one edge."""
    out = set()
    for s in fn.succs()[start]:
        if s not in avoid:
            out |= reachable(fn, s, avoid)
    return out


def backward_reachable(fn, targets, avoid=()):
    preds = fn.preds()
    avoid = set(avoid)
    seen = set()
    st = [t for t in targets if t not in avoid]
    while st:
        b = st.pop()
        if b in seen:
            continue
        seen.add(b)
        for p in preds[b]:
            if p not in seen and p not in avoid:
                st.append(p)
    return seen


def dominators(fn, entry=0):
    """dom[b] = set of blocks dominating b (incl. b), for blocks reachable from entry."""
    succs = fn.succs()
    nodes = sorted(reachable(fn, entry))
    order = _rpo(succs, entry)
    preds = fn.preds()
    full = set(nodes)
    dom = {n: set(full) for n in nodes}
    dom[entry] = {entry}
    changed = True
    while changed:
        changed = False
        for n in order:
            if n == entry:
                continue
            ps = [p for p in preds[n] if p in dom]
            new = None
            for p in ps:
                new = set(dom[p]) if new is None else (new & dom[p])
            new = (new or set()) | {n}
            if new != dom[n]:
                dom[n] = new
                changed = True
    return dom


def _rpo(succs, entry):
    seen = set()
    out = []
    st = [(entry, iter(succs[entry]))]
    seen.add(entry)
    while st:
        n, it = st[-1]
        adv = False
        for s in it:
            if s not in seen:
                seen.add(s)
                st.append((s, iter(succs[s])))
                adv = True
                break
        if not adv:
            out.append(n)
            st.pop()
    out.reverse()
    return out


def postdominators(fn, exits=None):
    """pdom[b] = set of blocks post-dominating b w.r.t. the given exit blocks (default: returns).
    Blocks that cannot reach an exit are absent."""
    exits = list(exits if exits is not None else fn.returns())
    preds = fn.preds()
    succs = fn.succs()
    nodes = backward_reachable(fn, exits)
    pdom = {n: set(nodes) for n in nodes}
    for e in exits:
        pdom[e] = {e}
    changed = True
    while changed:
        changed = False
        for n in nodes:
            if n in exits:
                continue
            ss = [s for s in succs[n] if s in pdom]
            new = None
            for s in ss:
                new = set(pdom[s]) if new is None else (new & pdom[s])
            new = (new or set()) | {n}
            if new != pdom[n]:
                pdom[n] = new
                changed = True
    return pdom


def dominates(dom, a, b):
    return b in dom and a in dom[b]


def back_edges(fn):
    dom = dominators(fn)
    out = []
    for b, ss in enumerate(fn.succs()):
        if b not in dom:
            continue
        for s in ss:
            if s in dom[b]:
                out.append((b, s))
    return out


def natural_loops(fn):
    """header -> set(blocks)"""
    preds = fn.preds()
    loops = {}
    for (t, h) in back_edges(fn):
        body = {h}
        st = [t]
        while st:
            n = st.pop()
            if n in body:
                continue
            body.add(n)
            st.extend(preds[n])
        loops.setdefault(h, set()).update(body)
    return loops


def edge_reaches(fn, frm, to_set, avoid=()):
    """True if some path frm ->+ any block in to_set exists."""
    r = reachable_strict(fn, frm, avoid)
    return bool(r & set(to_set))


def must_pass(fn, start, through, targets):
    """True if every path from start to any of targets passes a block in `through`
    (start itself counts if it is in through)."""
    if start in through:
        return True
    r = reachable(fn, start, avoid=through)
    return not (r & set(targets))


def find_path(fn, start, goal_set, avoid=()):
    """A shortest block path start -> one of goal_set (for reports)."""
    from collections import deque
    succs = fn.succs()
    goal_set = set(goal_set)
    prev = {start: None}
    dq = deque([start])
    while dq:
        n = dq.popleft()
        if n in goal_set and n != start:
            p = []
            while n is not None:
                p.append(n)
                n = prev[n]
            return p[::-1]
        for s in succs[n]:
            if s not in prev and s not in avoid:
                prev[s] = n
                dq.append(s)
    return None
