"""Thorough tier: machinery regression on scratch copies of /repo's CURRENT tree.
 * seeded changes (/verif/seeded/<id>/patch.diff, meta.json) that break the property: the check must report a violation;
 * benign edits (/verif/benign/*.diff): the check must stay silent.
A patch that no longer applies is reported as skipped, never as a failure of /repo."""
import json
import os
import shutil
import subprocess
import tempfile

from . import facts

SEEDED = os.path.join(facts.VERIF, "seeded")
BENIGN = os.path.join(facts.VERIF, "benign")


def _scratch_copy():
    d = tempfile.mkdtemp(prefix="verif-scratch-")
    dst = os.path.join(d, "repo")
    shutil.copytree(facts.REPO, dst, ignore=shutil.ignore_patterns("target", ".git", "scratch"))
    return d, dst


def _apply(dst, patch):
    r = subprocess.run(["patch", "-p1", "--no-backup-if-mismatch", "-s", "-f", "-i", patch], cwd=dst, stdout=subprocess.PIPE, stderr=subprocess.STDOUT, text=True)
    return r.returncode == 0, r.stdout[-300:]


def _run_check(prop, repo):
    evd = tempfile.mkdtemp(prefix="verif-ev-")
    try:
        env = dict(os.environ, VERIF_REPO=repo, VERIF_EVIDENCE_DIR=evd, VERIF_TIER="quick")
        r = subprocess.run([os.path.join(facts.VERIF, "check"), prop, "--tier", "quick"], cwd=facts.VERIF, env=env, stdout=subprocess.PIPE, stderr=subprocess.STDOUT, text=True)
        rules = []
        for l in r.stdout.splitlines():
            if l.startswith("  rule="):
                rules.append(l.split()[0][5:])
        return r.returncode, sorted(set(rules)), r.stdout[-600:]
    finally:
        shutil.rmtree(evd, ignore_errors=True)


def run(ctx):
    prop = ctx.prop
    R = "SEEDED"
    ctx.rule(R, "thorough tier: each seeded property-breaking change kept under /verif/seeded for this property is applied to a scratch copy of /repo's current tree, "
                "facts are re-extracted and this property's check must report a violation (changes recorded as not statically decidable are listed, not required)")
    ctx.rule("BENIGN", "thorough tier: the behaviour-preserving edits under /verif/benign are applied to a scratch copy and this property's check must stay silent")
    ids = []
    if os.path.isdir(SEEDED):
        for i in sorted(os.listdir(SEEDED)):
            mp = os.path.join(SEEDED, i, "meta.json")
            if os.path.exists(mp):
                with open(mp) as f:
                    m = json.load(f)
                if prop in m.get("checked_by", [m.get("property")]):
                    ids.append((i, m))
    for i, m in ids:
        d, dst = _scratch_copy()
        try:
            ok, msg = _apply(dst, os.path.join(SEEDED, i, "patch.diff"))
            if not ok:
                ctx.note("seeded change %s no longer applies to the current tree (skipped): %s" % (i, msg.strip()[:120]))
                continue
            rc, rules, tail = _run_check(prop, dst)
            if rc == 2:
                rc, rules, tail = _run_check(prop, dst)
            if rc == 2:
                ctx.note("seeded change %s: the patched scratch copy could not be analysed (engine/build error, not a verdict): %s" % (i, tail[-160:]))
                continue
            expect = m.get("detected_by", {}).get(prop)
            if expect is None and not m.get("detected", True):
                ctx.ok(R, "%s (recorded as not decided by static rules)" % i, "check exit %d, rules %s" % (rc, rules))
                continue
            good = rc == 1 and (not expect or any(e in rules for e in expect))
            ctx.check(good, R, i, "reported by %s" % rules, "the check no longer reports the seeded change %s (exit %d, rules %s, expected %s)" % (i, rc, rules, expect), key="%s|%s" % (R, i))
        finally:
            shutil.rmtree(d, ignore_errors=True)
    if os.path.isdir(BENIGN):
        for pf in sorted(os.listdir(BENIGN)):
            if not pf.endswith(".diff"):
                continue
            d, dst = _scratch_copy()
            try:
                ok, msg = _apply(dst, os.path.join(BENIGN, pf))
                if not ok:
                    ctx.note("benign patch %s no longer applies to the current tree (skipped)" % pf)
                    continue
                rc, rules, tail = _run_check(prop, dst)
                if rc == 2:
                    rc, rules, tail = _run_check(prop, dst)
                if rc == 2:
                    ctx.note("benign patch %s: the patched scratch copy could not be analysed (engine/build error, not a verdict)" % pf)
                    continue
                ctx.check(rc == 0, "BENIGN", pf, "check stays silent", "the check raises an alarm on the behaviour-preserving edits of %s: %s" % (pf, tail[-300:]), key="BENIGN|%s" % pf)
            finally:
                shutil.rmtree(d, ignore_errors=True)
