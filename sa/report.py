"""Obligation bookkeeping, evidence JSON, VIOLATION / KNOWN-FINDING lines, replay files."""
import json
import os
import time

VERIF = os.path.dirname(os.path.dirname(os.path.abspath(__file__)))


class Ctx:
    def __init__(self, prop, tier, seed, prog):
        self.prop = prop
        self.tier = tier
        self.seed = seed
        self.prog = prog
        self.t0 = time.time()
        self.obs = []       # dict(rule, instance, status, detail, loc, key)
        self.notes = []
        self.rules = {}     # rule -> description
        self.assumptions = []
        self.extra = {}

    # ---------------------------------------------------------------- recording
    def rule(self, name, text):
        self.rules[name] = text

    def ok(self, rule, instance, detail="", loc=None, how="discharged"):
        self.obs.append(dict(rule=rule, instance=instance, status=how, detail=detail, loc=loc))

    def justified(self, rule, instance, reason, loc=None):
        self.obs.append(dict(rule=rule, instance=instance, status="justified", detail=reason, loc=loc))

    def violation(self, rule, instance, detail, loc=None, fn=None, path=None, key=None):
        k = key or "%s|%s" % (rule, instance)
        self.obs.append(dict(rule=rule, instance=instance, status="violated", detail=detail, loc=loc,
                             fn=fn, path=path, key=k))

    def anchor_missing(self, rule, what):
        self.obs.append(dict(rule=rule, instance="anchor:" + what, status="violated",
                             detail="ANCHOR-MISSING: the construct this rule reasons about was not found: " + what,
                             loc=None, key="%s|anchor|%s" % (rule, what), anchor=True))

    def floor(self, rule, what, count, minimum):
        """fail closed when a rule finds fewer instances than were confirmed by hand"""
        if count < minimum:
            self.anchor_missing(rule, "%s: found %d, expected at least %d" % (what, count, minimum))
            return False
        return True

    def check(self, cond, rule, instance, detail_ok="", detail_bad="", loc=None, fn=None, key=None):
        if cond:
            self.ok(rule, instance, detail_ok, loc)
        else:
            self.violation(rule, instance, detail_bad or detail_ok, loc, fn=fn, key=key)
        return cond

    def note(self, s):
        self.notes.append(s)

    def assume(self, s):
        if s not in self.assumptions:
            self.assumptions.append(s)

    # ---------------------------------------------------------------- finishing
    def finish(self, level="other", explanation="", trusted_base=None, checker_cmd=None):
        known = load_known()
        open_keys = {(k["property"], k["key"]): k for k in known if k.get("status") == "open"}
        viol = [o for o in self.obs if o["status"] == "violated"]
        unexplained = []
        knowns = []
        for v in viol:
            kk = (self.prop, v["key"])
            if kk in open_keys:
                knowns.append((v, open_keys[kk]))
            else:
                unexplained.append(v)
        evdir = os.environ.get("VERIF_EVIDENCE_DIR") or os.path.join(VERIF, "evidence")
        os.makedirs(os.path.join(evdir, "violations"), exist_ok=True)
        # clear old replay files of this property
        for f in os.listdir(os.path.join(evdir, "violations")):
            if f.startswith(self.prop + "-"):
                os.remove(os.path.join(evdir, "violations", f))
        lines = []
        for v, k in knowns:
            lines.append("KNOWN-FINDING: property=%s %s [%s]" % (self.prop, k.get("what", v["detail"]), v["key"]))
        groups = {}
        for v in unexplained:
            groups.setdefault(v["key"], []).append(v)
        for n, (gk, vs) in enumerate(sorted(groups.items())):
            v = dict(vs[0])
            if len(vs) > 1:
                v["detail"] = "%s  [+%d more instances of this violation class: %s]" % (
                    v["detail"], len(vs) - 1, "; ".join(x["instance"] for x in vs[1:8]))
            v["instances"] = [x["instance"] for x in vs]
            rp = os.path.join(evdir, "violations", "%s-%d.json" % (self.prop, n))
            with open(rp, "w") as f:
                json.dump(dict(property=self.prop, rule=v["rule"], rule_text=self.rules.get(v["rule"], ""),
                               instance=v["instance"], key=v["key"], detail=v["detail"], location=v.get("loc"),
                               function=v.get("fn"), path=v.get("path"), tier=self.tier, instances=v.get("instances"),
                               facts_config=self.prog.config if self.prog else None), f, indent=1)
            lines.append("VIOLATION property=%s replay=%s" % (self.prop, rp))
            lines.append(("  rule=%s instance=%s at %s: %s" % (v["rule"], v["instance"], v.get("loc") or "-", v["detail"]))[:700])
        n_ob = len(self.obs)
        n_dis = len([o for o in self.obs if o["status"] in ("discharged", "justified")])
        per_rule = {}
        for o in self.obs:
            r = per_rule.setdefault(o["rule"], dict(obligations=0, discharged=0, justified=0, violated=0))
            r["obligations"] += 1
            r[o["status"] if o["status"] != "discharged" else "discharged"] += 1
        samples = []
        seen_rules = set()
        for o in self.obs:
            if o["rule"] not in seen_rules or o["status"] == "violated":
                seen_rules.add(o["rule"])
                samples.append({k: o[k] for k in ("rule", "instance", "status", "detail", "loc") if o.get(k) is not None})
        samples = samples[:60]
        distinct = len({(o["rule"], o["instance"]) for o in self.obs})
        cov = dict(
            explanation=explanation or "static analysis of MIR facts; see rules",
            obligations=n_ob, discharged=n_dis,
            evaluations=n_ob, distinct_nontrivial=distinct,
            rule="one obligation per (rule, instance) the checker located in the current tree; distinct = distinct (rule, instance) pairs",
            samples=samples,
            rules=self.rules, per_rule=per_rule,
            analysed=dict(bodies=self.prog.stats() if self.prog else {}, facts_cached=bool(self.prog and self.prog.cached),
                          config=self.prog.config if self.prog else None),
            known_findings=[k["key"] for _, k in knowns],
            notes=self.notes,
            exhaustive=True,
        )
        if trusted_base:
            cov["trusted_base"] = trusted_base
        if checker_cmd:
            cov["checker_cmd"] = checker_cmd
        cov.update(self.extra)
        ev = dict(property_id=self.prop, tier=self.tier, seed=self.seed, level=level, coverage=cov,
                  assumptions=self.assumptions, wall_s=round(time.time() - self.t0, 3), violations=len(unexplained))
        with open(os.path.join(evdir, self.prop + ".json"), "w") as f:
            json.dump(ev, f, indent=1, sort_keys=True)
        for l in lines:
            print(l)
        print("%s: %d obligations, %d discharged/justified, %d known findings, %d violations (%.1fs)" % (
            self.prop, n_ob, n_dis, len(knowns), len(unexplained), time.time() - self.t0))
        return 1 if unexplained else 0


def load_known():
    p = os.path.join(VERIF, "known_findings.json")
    if not os.path.exists(p):
        return []
    with open(p) as f:
        return json.load(f)["findings"]
