#!/bin/bash
# Builds the fact extractor (rustc_private driver) offline. Idempotent.
set -e
cd "$(dirname "$0")/mirfacts"
export CARGO_NET_OFFLINE=true
cargo build --release --offline
test -x target/release/mirfacts
echo "mirfacts driver built"
