#!/usr/bin/env python3
"""runs every kept seed against the checks listed in its meta.json; prints one line per (seed, property)"""
import glob, json, os, shutil, sys
sys.path.insert(0, "/verif")
from sa import mutants
only = sys.argv[1:]
bad = 0
for mp in sorted(glob.glob('/verif/seeded/*/meta.json')):
    m = json.load(open(mp))
    if only and m["id"] not in only and m["property"] not in only:
        continue
    d, dst = mutants._scratch_copy()
    try:
        ok, msg = mutants._apply(dst, os.path.join(os.path.dirname(mp), "patch.diff"))
        if not ok:
            print("%-7s SKIP (patch no longer applies)" % m["id"])
            continue
        for p, exp in sorted(m.get("detected_by", {}).items()):
            rc, rules, tail = mutants._run_check(p, dst)
            good = rc == 1 and any(e in rules for e in exp)
            bad += not good
            print("%-7s %s %s exit=%d rules=%s" % (m["id"], p, "ok  " if good else "MISS", rc, rules))
    finally:
        shutil.rmtree(d, ignore_errors=True)
print("misses:", bad)
