#!/usr/bin/env python3
"""Systematic one-token mutation sweep (development tool, not a registered check).
  tools_mutsweep.py gen                       -> /tmp/msweep/mutants.json (list of single-site mutants of src/ and ffi/src, test modules excluded)
  tools_mutsweep.py run <worker> <nworkers>   -> builds+tests each mutant of this worker's share in its own scratch copy; appends to /tmp/msweep/results-<worker>.jsonl
  tools_mutsweep.py check                     -> runs all 20 checks on every surviving mutant; writes /tmp/msweep/survivors.jsonl
"""
import json, os, re, shutil, subprocess, sys, glob
REPO = "/repo"
OUT = os.environ.get("MSWEEP_OUT", "/tmp/msweep")
FILES = sorted(glob.glob(REPO + "/src/internal/*.rs")) + [REPO + "/ffi/src/lib.rs"]
REL = [(" <= ", " < "), (" < ", " <= "), (" >= ", " > "), (" > ", " >= "), (" == ", " != "), (" != ", " == ")]
ARI = [(" + ", " - "), (" - ", " + "), (" << ", " >> "), (" >> ", " << "), (" | ", " & "), (" & ", " | ")]
LOG = [(" && ", " || "), (" || ", " && ")]


def code_lines(path):
    """(lineno, text) of non-test, non-comment lines"""
    out = []
    with open(path) as f:
        lines = f.read().split("\n")
    for i, l in enumerate(lines):
        if re.match(r"\s*#\[cfg\(test\)\]", l):
            break
        s = l.strip()
        if not s or s.startswith("//") or s.startswith("#[") or s.startswith("use "):
            continue
        out.append((i, l))
    return lines, out


MODE = os.environ.get("MSWEEP_MODE", "v1")


def gen():
    muts = []
    for path in FILES:
        lines, cl = code_lines(path)
        rel = os.path.relpath(path, REPO)
        for i, l in cl:
            code = l.split("//")[0]
            if '"' in code and re.search(r'"[^"]*( [<>=!&|+-]+ )[^"]*"', code):
                continue  # operators inside string literals
            typey = re.search(r"\bfn\b|\bimpl\b|::<|->|\bwhere\b|\bstruct\b|\benum\b|\btype\b|<'|Vec<|Option<|Box<|Rc<|Result<|HashMap<|HashSet<|BTreeMap<|: &", code) is not None
            for a, b in ([] if MODE == "v2" else REL + ARI + LOG):
                if a in (" < ", " > ", " >> ", " << ", " & ", " | ") and typey:
                    continue
                for m in re.finditer(re.escape(a), code):
                    # avoid matching " < " inside " <= " etc.
                    new = code[:m.start()] + b + code[m.end():] + l[len(code):]
                    muts.append(dict(file=rel, line=i, old=l, new=new, op="%s->%s" % (a.strip(), b.strip())))
            for m in ([] if MODE == "v2" else re.finditer(r"\bif !(?=[a-z_(])", code)):
                muts.append(dict(file=rel, line=i, old=l, new=code[:m.start()] + "if " + code[m.end():] + l[len(code):], op="drop-not"))
            for m in ([] if MODE == "v2" else re.finditer(r"(?<![\w.\"'#x])(\d+)(?![\w.\"'])", code)):
                if re.search(r"\[[^\]]*$", code[:m.start()]) and "]" in code[m.end():] and ";" in code[m.start():]:
                    continue
                n = int(m.group(1))
                if n > 100000 or re.search(r"0x[0-9a-fA-F_]*$", code[:m.start()]):
                    continue
                muts.append(dict(file=rel, line=i, old=l, new=code[:m.start()] + str(n + 1) + code[m.end():] + l[len(code):], op="const+1"))
            for w, r_ in ([] if MODE == "v2" else (("true", "false"), ("false", "true"))):
                for m in re.finditer(r"\b%s\b" % w, code):
                    muts.append(dict(file=rel, line=i, old=l, new=code[:m.start()] + r_ + code[m.end():] + l[len(code):], op="%s->%s" % (w, r_)))
            if MODE == "v2":
                # second operator set: fallible statements dropped, constants decremented, paired library calls exchanged
                s2 = code.strip()
                if re.fullmatch(r"[a-z_][\w.:<>]*\([^;]*\)\?;", s2) and not s2.startswith(("let ", "return")):
                    muts.append(dict(file=rel, line=i, old=l, new=re.sub(r"\S.*$", "// (statement removed)", l), op="del-try-stmt"))
                for m in re.finditer(r"(?<![\w.\"'#x])(\d+)(?![\w.\"'])", code):
                    n = int(m.group(1))
                    if 0 < n <= 100000 and not re.search(r"0x[0-9a-fA-F_]*$", code[:m.start()]):
                        muts.append(dict(file=rel, line=i, old=l, new=code[:m.start()] + str(n - 1) + code[m.end():] + l[len(code):], op="const-1"))
                for a, b in ((".min(", ".max("), (".max(", ".min("), ("saturating_add", "saturating_sub"), ("saturating_sub", "saturating_add"), ("checked_add", "checked_sub"),
                             ("checked_sub", "checked_add"), ("wrapping_add", "wrapping_sub"), ("wrapping_sub", "wrapping_add"), (".is_some()", ".is_none()"), (".is_none()", ".is_some()"),
                             (".is_ok()", ".is_err()"), ("checked_shl", "checked_shr"), ("checked_shr", "checked_shl"), (".next()", ".next_back()"), ("into_iter()", "into_iter().rev()"),
                             (".iter()", ".iter().rev()"), ("as i16", "as i8"), ("as u16", "as u8"), (" as i32", " as i16 as i32")):
                    for m in re.finditer(re.escape(a), code):
                        muts.append(dict(file=rel, line=i, old=l, new=code[:m.start()] + b + code[m.end():] + l[len(code):], op="%s->%s" % (a.strip(" .("), b.strip(" .("))))
                continue
            s = code.strip()
            if re.fullmatch(r"(self\.[a-z_.]+\([^;]*\);|self\.[a-z_]+ = [^;]+;|[a-z_]+\.[a-z_]+\([^;]*\);|\*?[a-z_]+ [+\-|]?= [^;]+;)", s) and not s.startswith("let "):
                muts.append(dict(file=rel, line=i, old=l, new=re.sub(r"\S.*$", "// (statement removed)", l), op="del-stmt"))
    # de-duplicate
    seen, out = set(), []
    for m in muts:
        k = (m["file"], m["line"], m["new"])
        if k not in seen and m["new"] != m["old"]:
            seen.add(k)
            m["id"] = len(out)
            out.append(m)
    os.makedirs(OUT, exist_ok=True)
    json.dump(out, open(OUT + "/mutants.json", "w"))
    by = {}
    for m in out:
        by[m["op"]] = by.get(m["op"], 0) + 1
    print(len(out), "mutants", by)


def apply(root, m, undo=False):
    p = os.path.join(root, m["file"])
    lines = open(p).read().split("\n")
    assert lines[m["line"]] == (m["new"] if undo else m["old"]), (m, lines[m["line"]])
    lines[m["line"]] = m["old"] if undo else m["new"]
    open(p, "w").write("\n".join(lines))


def run(worker, n):
    muts = json.load(open(OUT + "/mutants.json"))
    root = "%s/w%d/repo" % (OUT, worker)
    if not os.path.isdir(root):
        os.makedirs(os.path.dirname(root), exist_ok=True)
        subprocess.check_call(["rsync", "-a", "--exclude", "target", "--exclude", ".git", REPO + "/", root + "/"])
    done = set()
    rp = "%s/results-%d.jsonl" % (OUT, worker)
    if os.path.exists(rp):
        done = {json.loads(l)["id"] for l in open(rp)}
    env = dict(os.environ, CARGO_NET_OFFLINE="true", CARGO_TARGET_DIR="%s/w%d/target" % (OUT, worker))
    for m in muts:
        if m["id"] % n != worker or m["id"] in done:
            continue
        apply(root, m)
        try:
            try:
                r = subprocess.run(["cargo", "test", "--workspace", "--offline", "--lib", "--tests", "-q"], cwd=root, env=env, stdout=subprocess.PIPE, stderr=subprocess.STDOUT, text=True, timeout=420)
                out = r.stdout
                if re.search(r"^error(\[E\d+\])?:", out, flags=re.M) and "test result" not in out:
                    st = "build-fail"
                elif r.returncode != 0:
                    st = "killed"
                else:
                    st = "survived"
            except subprocess.TimeoutExpired:
                st = "timeout"
        finally:
            apply(root, m, undo=True)
        with open(rp, "a") as f:
            f.write(json.dumps(dict(id=m["id"], status=st)) + "\n")


def check():
    muts = {m["id"]: m for m in json.load(open(OUT + "/mutants.json"))}
    res = {}
    for p in glob.glob(OUT + "/results-*.jsonl"):
        for l in open(p):
            d = json.loads(l)
            res[d["id"]] = d["status"]
    surv = [i for i, s in sorted(res.items()) if s == "survived"]
    print(len(res), "tested;", {s: list(res.values()).count(s) for s in set(res.values())})
    root = OUT + "/chk/repo"
    os.makedirs(OUT + "/chk", exist_ok=True)
    subprocess.check_call(["rsync", "-a", "--delete", "--exclude", "target", "--exclude", ".git", REPO + "/", root + "/"])
    done = set()
    sp = OUT + "/survivors.jsonl"
    if os.path.exists(sp):
        done = {json.loads(l)["id"] for l in open(sp)}
    props = ["C%02d" % i for i in range(1, 21)]
    for i in surv:
        if i in done:
            continue
        m = muts[i]
        apply(root, m)
        try:
            flagged = {}
            for p in props:
                env = dict(os.environ, VERIF_REPO=root, VERIF_EVIDENCE_DIR=OUT + "/chk/ev", VERIF_CACHE_MAX="400")
                r = subprocess.run(["/verif/check", p], env=env, stdout=subprocess.PIPE, stderr=subprocess.STDOUT, text=True)
                if r.returncode == 1:
                    flagged[p] = sorted({l.split()[0][5:] for l in r.stdout.splitlines() if l.startswith("  rule=")})
                elif r.returncode != 0:
                    flagged[p] = ["ENGINE-%d" % r.returncode]
        finally:
            apply(root, m, undo=True)
        with open(sp, "a") as f:
            f.write(json.dumps(dict(id=i, file=m["file"], line=m["line"] + 1, op=m["op"], old=m["old"].strip(), new=m["new"].strip(), flagged=flagged)) + "\n")


if __name__ == "__main__":
    if sys.argv[1] == "gen":
        gen()
    elif sys.argv[1] == "run":
        run(int(sys.argv[2]), int(sys.argv[3]))
    elif sys.argv[1] == "check":
        check()
