//! Positive controls for the analysis engine: every function below is a known instance (or known non-instance)
//! of a pattern the rules look for. The engine self-test (sa/selftest.py) runs on every check and fails the check
//! if the engine stops seeing them (an extractor or engine regression would otherwise make rules pass vacuously).
use std::io::{self, Read, Write};

pub fn unguarded_index(v: &[u8], i: usize) -> u8 {
    v[i]
}

pub fn guarded_index(v: &[u8], i: usize) -> u8 {
    if i < v.len() {
        v[i]
    } else {
        0
    }
}

pub fn unwrap_input(s: &str) -> i32 {
    s.parse::<i32>().unwrap()
}

pub fn add(a: i32, b: i32) -> i32 {
    a + b
}

pub fn const_shift(a: u32) -> u32 {
    a << 3
}

pub fn guarded_sub(a: u64, b: u64) -> u64 {
    if a >= b {
        a - b
    } else {
        0
    }
}

pub fn small_product(d: u64) -> u32 {
    (d % 10_000_000) as u32 * 100
}

pub fn dropped_result<W: Write>(mut w: W) {
    let _ = w.write_all(b"x");
}

pub fn swallowed<R: Read>(mut r: R) -> usize {
    let mut b = [0u8; 1];
    let mut n = 0;
    while let Ok(k) = r.read(&mut b) {
        if k == 0 {
            break;
        }
        n += k;
    }
    n
}

pub fn propagated<W: Write>(mut w: W) -> io::Result<()> {
    w.write_all(b"x")?;
    w.flush()
}

pub enum Kind {
    A,
    B,
    C,
}

pub fn table(k: &Kind) -> i32 {
    match *k {
        Kind::A => 10,
        Kind::B => 20,
        Kind::C => 30,
    }
}

pub fn error_after_mutation(v: &mut Vec<u8>, bad: bool) -> io::Result<()> {
    v.push(1);
    if bad {
        return Err(io::Error::new(io::ErrorKind::InvalidInput, "late"));
    }
    Ok(())
}

// ---- allocation and loop controls (ALLOC-BOUND, LOOP-PROGRESS) ----

pub fn alloc_unbounded(n: u64) -> Vec<u8> {
    vec![0u8; n as usize]
}

pub fn alloc_bounded(n: u64) -> Vec<u8> {
    if n > 4096 {
        return Vec::new();
    }
    vec![0u8; n as usize]
}

pub fn loop_counted(v: &[u8]) -> u32 {
    let mut i = 0;
    let mut s = 0u32;
    while i < v.len() {
        s = s.wrapping_add(v[i] as u32);
        i += 1;
    }
    s
}

pub fn loop_stuck(v: &[u8]) -> u32 {
    let mut i = 0;
    let mut s = 0u32;
    while i < v.len() {
        if v[i] == 0 {
            continue;
        }
        s = s.wrapping_add(v[i] as u32);
        i += 1;
    }
    s
}

pub fn loop_iter(v: &[u8]) -> u32 {
    let mut s = 0u32;
    for x in v {
        s = s.wrapping_add(*x as u32);
    }
    s
}

// ---- controls for the helper inliner and for closure lifting ----

fn canary_helper(v: &[u8], i: usize) -> u8 {
    if i < v.len() {
        v[i]
    } else {
        0
    }
}

pub fn canary_caller(v: &[u8], i: usize) -> u8 {
    canary_helper(v, i)
}

pub fn closure_cmp(limit: Option<(i32, i32)>, n: i32) -> bool {
    limit.is_some_and(|(lo, hi)| n < lo || hi < n)
}

// ---- buffering adapters whose Drop swallows errors (ADAPTER-DROP) ----

pub fn bufwriter_dropped<W: Write>(mut w: W) -> io::Result<()> {
    {
        let mut b = io::BufWriter::new(&mut w);
        b.write_all(b"x")?;
    }
    w.flush()
}

pub fn bufwriter_flushed<W: Write>(mut w: W) -> io::Result<()> {
    {
        let mut b = io::BufWriter::new(&mut w);
        b.write_all(b"x")?;
        b.flush()?;
    }
    w.flush()
}

// ---- short reads (IO-EXACT) ----

pub fn short_read_discarded<R: Read>(mut r: R) -> io::Result<Vec<u8>> {
    let mut b = vec![0u8; 16];
    r.read(&mut b)?;
    Ok(b)
}

pub fn short_read_counted<R: Read>(mut r: R) -> io::Result<Vec<u8>> {
    let mut b = vec![0u8; 16];
    let n = r.read(&mut b)?;
    b.truncate(n);
    Ok(b)
}
