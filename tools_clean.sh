#!/bin/bash
# all 20 checks on /repo's tree: prints only checks that do not pass
for i in 01 02 03 04 05 06 07 08 09 10 11 12 13 14 15 16 17 18 19 20; do out=$(/verif/check C$i 2>&1); rc=$?; [ $rc -ne 0 ] && { echo "C$i rc=$rc"; echo "$out" | grep -E "^  rule=|Traceback|Error" | cut -c1-250; }; done; echo "clean sweep done"
