#!/usr/bin/env python3
"""usage: tools_trymut.py <patch.diff> [props...]  — apply a patch to a scratch copy of /repo and run the given checks (default: all)"""
import shutil
import sys
sys.path.insert(0, "/verif")
from sa import mutants, props
patch = sys.argv[1]
ps = sys.argv[2:] or sorted(["C01","C02","C04","C05","C06","C07","C08","C09","C10","C11","C12","C13","C14","C15","C16","C17","C18","C19","C20"])
d, dst = mutants._scratch_copy()
try:
    ok, msg = mutants._apply(dst, patch)
    if not ok:
        print("PATCH DOES NOT APPLY:", msg)
        sys.exit(2)
    for p in ps:
        rc, rules, tail = mutants._run_check(p, dst)
        if rc != 0:
            print(p, "exit", rc, rules)
            for l in tail.splitlines():
                if l.startswith("  rule="):
                    print("     ", l[:260])
        else:
            print(p, "silent")
finally:
    shutil.rmtree(d, ignore_errors=True)
