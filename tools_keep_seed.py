#!/usr/bin/env python3
"""tools_keep_seed.py <id> <property> <diff> <demo.rs> '<needs>' '<summary>' '<detected_by json {prop:[rules]}>' ['<verification line>']"""
import json, os, shutil, sys
i, prop, diff, demo, needs, summary, det = sys.argv[1:8]
ver = sys.argv[8] if len(sys.argv) > 8 else ""
d = os.path.join("/verif/seeded", i)
os.makedirs(d, exist_ok=True)
shutil.copy(diff, os.path.join(d, "patch.diff"))
shutil.copy(demo, os.path.join(d, "demo.rs"))
det = json.loads(det)
meta = dict(id=i, property=prop, summary=summary, needs_to_manifest=needs, detected=bool(det), detected_by=det, checked_by=sorted(det) or [prop],
            origin="independent sub-agent given only the property text and a scratch worktree",
            confirmed=dict(how="scratch worktree /tmp/seedcheck: git apply patch.diff; cargo test --workspace --offline (existing suite); cp demo.rs tests/; "
                               "cargo test --test zz_demo with and without the patch", result=ver))
json.dump(meta, open(os.path.join(d, "meta.json"), "w"), indent=1)
print("kept", i)
