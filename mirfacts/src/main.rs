#![feature(rustc_private)]
extern crate rustc_abi;
extern crate rustc_ast;
extern crate rustc_driver;
extern crate rustc_hir;
extern crate rustc_interface;
extern crate rustc_middle;
extern crate rustc_span;

use rustc_driver::Compilation;
use rustc_hir::def::DefKind;
use rustc_middle::mir::{
    self, AggregateKind, BasicBlock, Body, Operand, Place, ProjectionElem, Rvalue, StatementKind,
    TerminatorKind,
};
use rustc_middle::ty::{self, Instance, TyCtxt, TypingEnv};
use rustc_span::Span;
use std::fmt::Write as _;

fn esc(s: &str) -> String {
    let mut o = String::with_capacity(s.len() + 2);
    o.push('"');
    for c in s.chars() {
        match c {
            '"' => o.push_str("\\\""),
            '\\' => o.push_str("\\\\"),
            '\n' => o.push_str("\\n"),
            '\r' => o.push_str("\\r"),
            '\t' => o.push_str("\\t"),
            c if (c as u32) < 0x20 => { let _ = write!(o, "\\u{:04x}", c as u32); }
            c => o.push(c),
        }
    }
    o.push('"');
    o
}

struct Cx<'tcx> { tcx: TyCtxt<'tcx> }

impl<'tcx> Cx<'tcx> {
    fn span(&self, sp: Span) -> String {
        let sm = self.tcx.sess.source_map();
        let root = sp.source_callsite();
        let lo = sm.lookup_char_pos(root.lo());
        let file = format!("{}", lo.file.name.prefer_local_unconditionally());
        let mut mac = String::new();
        if sp.from_expansion() {
            if let Some(ed) = sp.macro_backtrace().last() {
                mac = format!("{}", ed.kind.descr());
            }
        }
        format!("{{\"file\":{},\"line\":{},\"col\":{},\"exp\":{},\"mac\":{}}}",
            esc(&file), lo.line, lo.col.0 + 1, sp.from_expansion(), esc(&mac))
    }

    fn place(&self, body: &Body<'tcx>, p: &Place<'tcx>) -> String {
        let mut out = format!("{{\"l\":{},\"p\":[", p.local.as_usize());
        let mut first = true;
        for (base, elem) in p.as_ref().iter_projections() {
            if !first { out.push(','); }
            first = false;
            match elem {
                ProjectionElem::Deref => out.push_str("\"*\""),
                ProjectionElem::Field(f, _) => {
                    let bty = base.ty(&body.local_decls, self.tcx);
                    let mut name = String::new();
                    if let ty::Adt(adt, _) = bty.ty.kind() {
                        let v = match bty.variant_index { Some(v) => Some(adt.variant(v)), None => if adt.is_struct() { Some(adt.non_enum_variant()) } else { None } };
                        if let Some(v) = v { if let Some(fd) = v.fields.get(f) { name = fd.name.to_string(); } }
                    }
                    let _ = write!(out, "{{\"f\":{},\"n\":{}}}", f.as_usize(), esc(&name));
                }
                ProjectionElem::Downcast(sym, v) => {
                    let _ = write!(out, "{{\"dc\":{},\"n\":{}}}", v.as_usize(), esc(&sym.map(|s| s.to_string()).unwrap_or_default()));
                }
                ProjectionElem::Index(l) => { let _ = write!(out, "{{\"idx\":{}}}", l.as_usize()); }
                ProjectionElem::ConstantIndex { offset, from_end, .. } => { let _ = write!(out, "{{\"cidx\":{},\"end\":{}}}", offset, from_end); }
                ProjectionElem::Subslice { from, to, from_end } => { let _ = write!(out, "{{\"sub\":[{},{}],\"end\":{}}}", from, to, from_end); }
                _ => out.push_str("\"?\""),
            }
        }
        out.push_str("]}");
        out
    }

    fn constant(&self, tenv: TypingEnv<'tcx>, c: &mir::ConstOperand<'tcx>) -> String {
        let ty = c.const_.ty();
        let mut out = format!("{{\"k\":\"const\",\"ty\":{}", esc(&ty.to_string()));
        if let ty::FnDef(did, args) = *ty.kind() {
            let _ = write!(out, ",\"fn\":{},\"fnid\":{},\"fnargs\":{}", esc(&self.tcx.def_path_str(did)), esc(&format!("{:?}", self.tcx.def_path_hash(did).0)), esc(&self.tcx.def_path_str_with_args(did, args)));
        } else if let Some(si) = c.const_.try_eval_scalar_int(self.tcx, tenv) {
            let size = si.size();
            let bits = si.to_bits(size);
            let sval: i128 = if ty.is_signed() { size.sign_extend(bits) as i128 } else { bits as i128 };
            let _ = write!(out, ",\"int\":{},\"bits\":{}", sval, size.bits());
        } else if let Some(name) = self.static_name(tenv, c) {
            let _ = write!(out, ",\"static\":{}", esc(&name));
        } else if matches!(ty.kind(), ty::Ref(_, inner, _) if inner.is_str()) {
            let mut done = false;
            if let Ok(cv) = c.const_.eval(self.tcx, tenv, c.span) {
                if let Some(bytes) = cv.try_get_slice_bytes_for_diagnostics(self.tcx) {
                    let _ = write!(out, ",\"str\":{}", esc(&String::from_utf8_lossy(bytes)));
                    done = true;
                }
            }
            if !done { let _ = write!(out, ",\"txt\":{}", esc(&format!("{}", c.const_))); }
        } else {
            let _ = write!(out, ",\"txt\":{}", esc(&format!("{}", c.const_)));
        }
        out.push('}');
        out
    }

    fn static_name(&self, tenv: TypingEnv<'tcx>, c: &mir::ConstOperand<'tcx>) -> Option<String> {
        let sc = c.const_.try_eval_scalar(self.tcx, tenv)?;
        if let rustc_middle::mir::interpret::Scalar::Ptr(ptr, _) = sc {
            let aid = ptr.provenance.alloc_id();
            if let Some(rustc_middle::mir::interpret::GlobalAlloc::Static(did)) = self.tcx.try_get_global_alloc(aid) {
                return Some(self.tcx.def_path_str(did));
            }
        }
        None
    }

    fn hir_lit(&self, e: &rustc_hir::Expr<'tcx>) -> String {
        use rustc_hir::ExprKind as K;
        match &e.kind {
            K::Array(xs) | K::Tup(xs) => { let v: Vec<String> = xs.iter().map(|x| self.hir_lit(x)).collect(); format!("[{}]", v.join(",")) }
            K::AddrOf(_, _, x) => self.hir_lit(x),
            K::Lit(l) => match &l.node {
                rustc_ast::LitKind::Str(sy, _) => esc(sy.as_str()),
                rustc_ast::LitKind::Int(n, _) => format!("{}", n.get()),
                rustc_ast::LitKind::Bool(b) => format!("{}", b),
                rustc_ast::LitKind::Char(ch) => esc(&ch.to_string()),
                _ => "null".into(),
            },
            K::Unary(rustc_hir::UnOp::Neg, x) => format!("{{\"neg\":{}}}", self.hir_lit(x)),
            K::Path(qp) => { let res = self.tcx.typeck(e.hir_id.owner.def_id).qpath_res(qp, e.hir_id); match res.opt_def_id() { Some(d) => format!("{{\"path\":{}}}", esc(&self.tcx.def_path_str(d))), None => "null".into() } }
            _ => "null".into(),
        }
    }

    fn operand(&self, body: &Body<'tcx>, tenv: TypingEnv<'tcx>, o: &Operand<'tcx>) -> String {
        match o {
            Operand::Copy(p) => format!("{{\"k\":\"copy\",\"pl\":{}}}", self.place(body, p)),
            Operand::Move(p) => format!("{{\"k\":\"move\",\"pl\":{}}}", self.place(body, p)),
            Operand::Constant(c) => self.constant(tenv, c),
            #[allow(unreachable_patterns)]
            _ => "{\"k\":\"?\"}".to_string(),
        }
    }

    fn rvalue(&self, body: &Body<'tcx>, tenv: TypingEnv<'tcx>, rv: &Rvalue<'tcx>) -> String {
        match rv {
            Rvalue::Use(o, _) => format!("{{\"rv\":\"use\",\"ops\":[{}]}}", self.operand(body, tenv, o)),
            Rvalue::Ref(_, bk, p) => format!("{{\"rv\":\"ref\",\"mut\":{},\"pl\":{}}}", matches!(bk, mir::BorrowKind::Mut { .. }), self.place(body, p)),
            Rvalue::RawPtr(_, p) => format!("{{\"rv\":\"rawptr\",\"pl\":{}}}", self.place(body, p)),
            Rvalue::Cast(kind, o, ty) => format!("{{\"rv\":\"cast\",\"kind\":{},\"to\":{},\"ops\":[{}]}}", esc(&format!("{:?}", kind)), esc(&ty.to_string()), self.operand(body, tenv, o)),
            Rvalue::BinaryOp(op, ab) => format!("{{\"rv\":\"bin\",\"op\":{},\"ops\":[{},{}]}}", esc(&format!("{:?}", op)), self.operand(body, tenv, &ab.0), self.operand(body, tenv, &ab.1)),
            Rvalue::UnaryOp(op, a) => format!("{{\"rv\":\"un\",\"op\":{},\"ops\":[{}]}}", esc(&format!("{:?}", op)), self.operand(body, tenv, a)),
            Rvalue::Discriminant(p) => format!("{{\"rv\":\"discr\",\"pl\":{}}}", self.place(body, p)),
            Rvalue::CopyForDeref(p) => format!("{{\"rv\":\"use\",\"ops\":[{{\"k\":\"copy\",\"pl\":{}}}]}}", self.place(body, p)),
            Rvalue::Aggregate(kind, ops) => {
                let k = match &**kind {
                    AggregateKind::Adt(did, vidx, _, _, _) => {
                        let adt = self.tcx.adt_def(*did);
                        format!("\"adt\":{},\"variant\":{},\"vidx\":{}", esc(&self.tcx.def_path_str(*did)), esc(&adt.variant(*vidx).name.to_string()), vidx.as_usize())
                    }
                    AggregateKind::Closure(did, _) => format!("\"closure\":{},\"cid\":{}", esc(&self.tcx.def_path_str(*did)), esc(&format!("{:?}", self.tcx.def_path_hash(*did).0))),
                    AggregateKind::Tuple => "\"tuple\":true".to_string(),
                    AggregateKind::Array(_) => "\"array\":true".to_string(),
                    other => format!("\"other\":{}", esc(&format!("{:?}", other))),
                };
                let ops: Vec<String> = ops.iter().map(|o| self.operand(body, tenv, o)).collect();
                format!("{{\"rv\":\"agg\",{},\"ops\":[{}]}}", k, ops.join(","))
            }
            other => format!("{{\"rv\":\"other\",\"txt\":{}}}", esc(&format!("{:?}", other))),
        }
    }

    fn body(&self, did: rustc_hir::def_id::DefId, out: &mut String) {
        let tcx = self.tcx;
        let body = tcx.optimized_mir(did);
        self.body_inner(did, body, None, out);
        let proms = tcx.promoted_mir(did);
        for (i, pb) in proms.iter_enumerated() {
            out.push_str(",\n");
            self.body_inner(did, pb, Some(i.as_usize()), out);
        }
    }

    fn body_inner(&self, did: rustc_hir::def_id::DefId, body: &Body<'tcx>, promoted: Option<usize>, out: &mut String) {
        let tcx = self.tcx;
        let tenv = TypingEnv::post_analysis(tcx, did);
        let kind = tcx.def_kind(did);
        let (idstr, pathstr, kindstr) = match promoted {
            None => (format!("{:?}", tcx.def_path_hash(did).0), tcx.def_path_str(did), format!("{:?}", kind)),
            Some(i) => (format!("{:?}::promoted[{}]", tcx.def_path_hash(did).0, i), format!("{}::promoted[{}]", tcx.def_path_str(did), i), "Promoted".to_string()),
        };
        let _ = write!(out, "{{\"id\":{},\"path\":{},\"kind\":{},\"span\":{},\"argc\":{}", esc(&idstr), esc(&pathstr), esc(&kindstr), self.span(body.span), body.arg_count);
        if promoted.is_none() && matches!(kind, DefKind::Fn | DefKind::AssocFn) {
            let _ = write!(out, ",\"vis\":{}", esc(&format!("{:?}", tcx.visibility(did))));
            let eff = tcx.effective_visibilities(());
            if let Some(l) = did.as_local() { let _ = write!(out, ",\"exported\":{}", eff.is_exported(l)); }
        }
        if let Some(parent) = tcx.opt_parent(did) {
            let _ = write!(out, ",\"parent\":{}", esc(&tcx.def_path_str(parent)));
            if matches!(tcx.def_kind(parent), DefKind::Impl { .. }) {
                let preds = tcx.predicates_of(parent).instantiate_identity(tcx);
                let ps: Vec<String> = preds.predicates.iter().map(|p| esc(&format!("{}", p.skip_normalization()))).collect();
                let _ = write!(out, ",\"impl_preds\":[{}]", ps.join(","));
                let _ = write!(out, ",\"impl_self\":{}", esc(&tcx.type_of(parent).instantiate_identity().skip_normalization().to_string()));
                if let Some(tr) = tcx.impl_opt_trait_ref(parent) { let _ = write!(out, ",\"impl_trait\":{}", esc(&format!("{}", tr.instantiate_identity().skip_normalization()))); }
            }
        }
        out.push_str(",\"locals\":[");
        for (i, d) in body.local_decls.iter().enumerate() {
            if i > 0 { out.push(','); }
            out.push_str(&esc(&d.ty.to_string()));
        }
        out.push_str("],\"vars\":[");
        let mut firstv = true;
        for vdi in body.var_debug_info.iter() {
            if let mir::VarDebugInfoContents::Place(p) = &vdi.value {
                if p.projection.is_empty() {
                    if !firstv { out.push(','); }
                    firstv = false;
                    let _ = write!(out, "[{},{}]", esc(&vdi.name.to_string()), p.local.as_usize());
                }
            }
        }
        out.push_str("],\"blocks\":[");
        for (bb, data) in body.basic_blocks.iter_enumerated() {
            if bb.as_usize() > 0 { out.push(','); }
            let _ = write!(out, "{{\"id\":{},\"cleanup\":{},\"stmts\":[", bb.as_usize(), data.is_cleanup);
            let mut first = true;
            for st in &data.statements {
                if let StatementKind::Assign(b) = &st.kind {
                    if !first { out.push(','); }
                    first = false;
                    let _ = write!(out, "{{\"lhs\":{},\"rhs\":{},\"sp\":{}}}", self.place(body, &b.0), self.rvalue(body, tenv, &b.1), self.span(st.source_info.span));
                } else if let StatementKind::SetDiscriminant { place, variant_index } = &st.kind {
                    if !first { out.push(','); }
                    first = false;
                    let _ = write!(out, "{{\"lhs\":{},\"rhs\":{{\"rv\":\"setdiscr\",\"vidx\":{}}},\"sp\":{}}}", self.place(body, place), variant_index.as_usize(), self.span(st.source_info.span));
                }
            }
            out.push_str("],\"term\":");
            let t = data.terminator();
            let sp = self.span(t.source_info.span);
            let bbn = |b: &BasicBlock| b.as_usize();
            match &t.kind {
                TerminatorKind::Goto { target } => { let _ = write!(out, "{{\"t\":\"goto\",\"succ\":[{}]", bbn(target)); }
                TerminatorKind::SwitchInt { discr, targets } => {
                    let vals: Vec<String> = targets.iter().map(|(v, b)| format!("[{},{}]", v, bbn(&b))).collect();
                    let _ = write!(out, "{{\"t\":\"switch\",\"discr\":{},\"cases\":[{}],\"otherwise\":{}", self.operand(body, tenv, discr), vals.join(","), bbn(&targets.otherwise()));
                }
                TerminatorKind::Return => { out.push_str("{\"t\":\"return\""); }
                TerminatorKind::Unreachable => { out.push_str("{\"t\":\"unreachable\""); }
                TerminatorKind::UnwindResume => { out.push_str("{\"t\":\"resume\""); }
                TerminatorKind::UnwindTerminate(_) => { out.push_str("{\"t\":\"terminate\""); }
                TerminatorKind::Drop { place, target, unwind, .. } => {
                    let ty = place.ty(&body.local_decls, tcx).ty;
                    let uw = if let mir::UnwindAction::Cleanup(b) = unwind { bbn(b) as i64 } else { -1 };
                    let _ = write!(out, "{{\"t\":\"drop\",\"pl\":{},\"ty\":{},\"succ\":[{}],\"unwind\":{}", self.place(body, place), esc(&ty.to_string()), bbn(target), uw);
                }
                TerminatorKind::Assert { cond, expected, msg, target, unwind } => {
                    let uw = if let mir::UnwindAction::Cleanup(b) = unwind { bbn(b) as i64 } else { -1 };
                    let (mk, mops): (String, Vec<String>) = match &**msg {
                        mir::AssertKind::BoundsCheck { len, index } => ("BoundsCheck".into(), vec![self.operand(body, tenv, len), self.operand(body, tenv, index)]),
                        mir::AssertKind::Overflow(op, a, b) => (format!("Overflow:{:?}", op), vec![self.operand(body, tenv, a), self.operand(body, tenv, b)]),
                        mir::AssertKind::OverflowNeg(a) => ("OverflowNeg".into(), vec![self.operand(body, tenv, a)]),
                        mir::AssertKind::DivisionByZero(a) => ("DivisionByZero".into(), vec![self.operand(body, tenv, a)]),
                        mir::AssertKind::RemainderByZero(a) => ("RemainderByZero".into(), vec![self.operand(body, tenv, a)]),
                        other => (format!("{:?}", other).split(|c: char| !c.is_alphanumeric()).next().unwrap_or("").to_string(), vec![]),
                    };
                    let _ = write!(out, "{{\"t\":\"assert\",\"cond\":{},\"expected\":{},\"msg\":{},\"mops\":[{}],\"succ\":[{}],\"unwind\":{}", self.operand(body, tenv, cond), expected, esc(&mk), mops.join(","), bbn(target), uw);
                }
                TerminatorKind::Call { func, args, destination, target, unwind, .. } => {
                    let uw = if let mir::UnwindAction::Cleanup(b) = unwind { bbn(b) as i64 } else { -1 };
                    let mut callee = String::from("null");
                    let mut resolved = String::from("null");
                    let mut written = String::from("null");
                    let mut selfty = String::from("null");
                    let mut cid = String::from("null");
                    let mut rid = String::from("null");
                    if let Some((cd, cargs)) = func.const_fn_def() {
                        callee = esc(&tcx.def_path_str(cd));
                        cid = esc(&format!("{:?}", tcx.def_path_hash(cd).0));
                        written = esc(&tcx.def_path_str_with_args(cd, cargs));
                        if let Ok(Some(inst)) = Instance::try_resolve(tcx, tenv, cd, cargs) {
                            resolved = esc(&tcx.def_path_str(inst.def_id()));
                            rid = esc(&format!("{:?}", tcx.def_path_hash(inst.def_id()).0));
                        }
                        if tcx.trait_of_assoc(cd).is_some() && cargs.len() > 0 {
                            if let Some(t) = cargs[0].as_type() { selfty = esc(&t.to_string()); }
                        }
                    }
                    let a: Vec<String> = args.iter().map(|s| self.operand(body, tenv, &s.node)).collect();
                    let succ = match target { Some(b) => format!("[{}]", bbn(b)), None => "[]".into() };
                    let _ = write!(out, "{{\"t\":\"call\",\"cid\":{},\"rid\":{},\"callee\":{},\"written\":{},\"resolved\":{},\"selfty\":{},\"fnop\":{},\"args\":[{}],\"dest\":{},\"succ\":{},\"unwind\":{}",
                        cid, rid, callee, written, resolved, selfty, self.operand(body, tenv, func), a.join(","), self.place(body, destination), succ, uw);
                }
                other => { let _ = write!(out, "{{\"t\":\"other\",\"txt\":{}", esc(&format!("{:?}", other).chars().take(80).collect::<String>())); }
            }
            let _ = write!(out, ",\"sp\":{}}}}}", sp);
        }
        out.push_str("]}");
    }
}

struct Cb;
impl rustc_driver::Callbacks for Cb {
    fn after_analysis<'tcx>(&mut self, _c: &rustc_interface::interface::Compiler, tcx: TyCtxt<'tcx>) -> Compilation {
        let krate = tcx.crate_name(rustc_span::def_id::LOCAL_CRATE).to_string();
        let cx = Cx { tcx };
        let mut out = String::new();
        let _ = write!(out, "{{\"crate\":{},\"bodies\":[", esc(&krate));
        let mut first = true;
        for ldid in tcx.hir_body_owners() {
            let did = ldid.to_def_id();
            if !matches!(tcx.def_kind(did), DefKind::Fn | DefKind::AssocFn | DefKind::Closure) { continue; }
            if !first { out.push_str(",\n"); }
            first = false;
            cx.body(did, &mut out);
        }
        out.push_str("],\"consts\":[");
        let mut first = true;
        for ldid in tcx.hir_body_owners() {
            let did = ldid.to_def_id();
            if !matches!(tcx.def_kind(did), DefKind::Const { .. } | DefKind::Static { .. }) { continue; }
            let hb = tcx.hir_body_owned_by(ldid);
            if !first { out.push_str(",\n"); }
            first = false;
            let cty = tcx.type_of(did).instantiate_identity().skip_normalization();
            let mut val = String::from("null");
            if matches!(tcx.def_kind(did), DefKind::Const { .. }) && (cty.is_integral() || cty.is_bool() || cty.is_char()) {
                if let Ok(cv) = tcx.const_eval_poly(did) {
                    if let Some(si) = cv.try_to_scalar_int() {
                        let size = si.size();
                        let bits = si.to_bits(size);
                        let sval: i128 = if cty.is_signed() { size.sign_extend(bits) as i128 } else { bits as i128 };
                        val = format!("{}", sval);
                    }
                }
            }
            let _ = write!(out, "{{\"path\":{},\"ty\":{},\"val\":{},\"lit\":{},\"span\":{}}}", esc(&tcx.def_path_str(did)), esc(&cty.to_string()), val, cx.hir_lit(hb.value), cx.span(tcx.def_span(did)));
        }
        out.push_str("],\"adts\":[");
        let mut first = true;
        for id in tcx.hir_free_items() {
            let did = id.owner_id.to_def_id();
            if !matches!(tcx.def_kind(did), DefKind::Struct | DefKind::Enum) { continue; }
            let adt = tcx.adt_def(did);
            if !first { out.push_str(",\n"); }
            first = false;
            let _ = write!(out, "{{\"path\":{},\"kind\":{},\"variants\":[", esc(&tcx.def_path_str(did)), esc(if adt.is_enum() { "enum" } else { "struct" }));
            for (vi, v) in adt.variants().iter_enumerated() {
                if vi.as_usize() > 0 { out.push(','); }
                let discr = if adt.is_enum() { adt.discriminant_for_variant(tcx, vi).val } else { 0 };
                let _ = write!(out, "{{\"name\":{},\"idx\":{},\"discr\":{},\"fields\":[", esc(&v.name.to_string()), vi.as_usize(), discr);
                for (fi, f) in v.fields.iter().enumerate() {
                    if fi > 0 { out.push(','); }
                    let fty = tcx.type_of(f.did).instantiate_identity().skip_normalization();
                    let _ = write!(out, "[{},{}]", esc(&f.name.to_string()), esc(&fty.to_string()));
                }
                out.push_str("]}");
            }
            out.push_str("]}");
        }
        out.push_str("]}");
        let dir = std::env::var("MIRFACTS_OUT").unwrap_or("/tmp".into());
        std::fs::write(format!("{}/{}.json", dir, krate), out).unwrap();
        Compilation::Continue
    }
}
struct Nop;
impl rustc_driver::Callbacks for Nop {}

fn main() {
    let mut args: Vec<String> = std::env::args().collect();
    args.remove(1);
    let want = std::env::var("MIRFACTS_CRATES").unwrap_or("msi,msi_ffi,cfb".into());
    let mut name = String::new();
    for (i, a) in args.iter().enumerate() { if a == "--crate-name" { name = args[i + 1].clone(); } }
    if want.split(',').any(|w| w == name) { rustc_driver::run_compiler(&args, &mut Cb); }
    else { rustc_driver::run_compiler(&args, &mut Nop); }
}
