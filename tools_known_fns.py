#!/usr/bin/env python3
"""freezes the list of workspace functions the shape rules were confirmed on (tables/known_fns.json); run only when the rules have been re-confirmed on a new tree"""
import json, os, sys
os.environ["VERIF_NO_INLINE"] = "1"
sys.path.insert(0, "/verif")
from sa import facts
prog = facts.load()
names = sorted({f.name for f in prog.fns.values() if f.crate in ("msi", "msi_ffi") and f.kind in ("Fn", "AssocFn")})
sigs = {}
for f in prog.fns.values():
    if f.crate in ("msi", "msi_ffi") and f.kind in ("Fn", "AssocFn"):
        sigs[f.name] = [f.locals[i] for i in range(0, f.argc + 1)]
json.dump({"comment": "functions of msi and msi_ffi on the tree the shape rules were confirmed on; calls to workspace functions NOT in this list are inlined before the rules run (sa/inline.py); "
                      "signatures (return type, then parameter types) let a renamed or moved private function be recognised",
           "tree": facts.tree_hash(), "functions": names, "signatures": sigs,
           "adts": {k: [[[fn_, ft] for fn_, ft in v["fields"]] for v in a["variants"]] for k, a in prog.adts.items() if k.split("::", 1)[0] in ("msi", "msi_ffi")},
           "consts": {k: [c.get("ty"), c.get("val")] for k, c in prog.consts.items() if k.split("::", 1)[0] in ("msi", "msi_ffi")}}, open("/verif/tables/known_fns.json", "w"), indent=0)
print(len(names), "functions")
