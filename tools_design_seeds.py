#!/usr/bin/env python3
"""regenerates the seeded-changes table of DESIGN.md (§10.5) from /verif/seeded/*/meta.json"""
import glob, json, re
rows = []
for mp in sorted(glob.glob('/verif/seeded/*/meta.json')):
    m = json.load(open(mp))
    det = "; ".join("%s: %s" % (p, "+".join(r)) for p, r in sorted(m.get("detected_by", {}).items())) or "**not decided by any rule**"
    rows.append("| %s | %s | %s | %s |" % (m["id"], m["summary"].replace("|", "/"), m["needs_to_manifest"].replace("|", "/"), det))
body = """### 10.5 Seeded changes: which checks catch which

Each change below was written by an independent sub-agent that saw only the property text and a scratch worktree, and was kept
only after being confirmed here (existing suite passes with it; its demonstration fails with it and passes without). Patches,
demonstrations and notes are in `/verif/seeded/<id>/`. The thorough tier re-applies every one of them to a scratch copy of the
current tree and requires the listed check to fire. Changes that were first *missed* and led to a stronger rule are marked in §10.3/10.2.

| id | change | needs, to manifest | reported by (property: rules) |
|---|---|---|---|
""" + "\n".join(rows) + "\n"
p = '/verif/DESIGN.md'
s = open(p).read()
if '<!-- SEEDS-BEGIN -->' in s:
    s = re.sub(r"<!-- SEEDS-BEGIN -->.*<!-- SEEDS-END -->", "<!-- SEEDS-BEGIN -->\n" + body.replace("\\", "\\\\") + "<!-- SEEDS-END -->", s, flags=re.S)
else:
    s += "\n<!-- SEEDS-BEGIN -->\n" + body + "<!-- SEEDS-END -->\n"
open(p, 'w').write(s)
print(len(rows), "rows")
