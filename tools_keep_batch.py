#!/usr/bin/env python3
"""tools_keep_batch.py <spec.json> — spec: [{id, prop, diff, demo, needs, summary, also:[props]}]; runs the checks on a scratch copy, records which rules fire, keeps the seed"""
import json, shutil, subprocess, sys
sys.path.insert(0, "/verif")
from sa import mutants
for e in json.load(open(sys.argv[1])):
    d, dst = mutants._scratch_copy()
    try:
        ok, msg = mutants._apply(dst, e["diff"])
        if not ok:
            print(e["id"], "PATCH DOES NOT APPLY", msg); continue
        det = {}
        for p in [e["prop"]] + e.get("also", []):
            rc, rules, tail = mutants._run_check(p, dst)
            if rc == 1:
                det[p] = rules
            elif rc != 0:
                print(e["id"], p, "rc", rc)
    finally:
        shutil.rmtree(d, ignore_errors=True)
    if e["prop"] not in det:
        print(e["id"], "MISSED by", e["prop"], det)
    subprocess.check_call(["/verif/tools_keep_seed.py", e["id"], e["prop"], e["diff"], e["demo"], e["needs"], e["summary"], json.dumps(det),
                           e.get("ver", "existing suite 94+17 passes with the patch; demo fails with the patch and passes without it")])
    print(e["id"], det)
