#![allow(non_camel_case_types)]
//! Type-level witnesses for C16 (rule TYPE-1): with a medium that implements only `Read + Seek`, the read API compiles and
//! every mutator (and `flush`) fails to type-check with E0599; each failing witness has a compiling twin that differs only in the
//! medium type, so a witness cannot pass merely because its path is wrong.

/// Read-only session on a `Read + Seek` medium: everything here must compile.
/// ```no_run
/// # use std::io::{self, Cursor, Read, Seek, SeekFrom};
/// # #[allow(dead_code)] struct RO(Cursor<Vec<u8>>);
/// # impl Read for RO { fn read(&mut self, b: &mut [u8]) -> io::Result<usize> { self.0.read(b) } }
/// # impl Seek for RO { fn seek(&mut self, f: SeekFrom) -> io::Result<u64> { self.0.seek(f) } }
/// let m = RO(Cursor::new(Vec::new()));
/// let mut p = msi::Package::open(m).unwrap();
/// let _ = (p.package_type(), p.database_codepage(), p.has_table("T"), p.has_stream("s"), p.has_digital_signature());
/// let _ = p.summary_info().author();
/// for t in p.tables() { let _ = (t.name(), t.columns().len(), t.primary_key_indices()); }
/// let _ = p.get_table("T").map(|t| t.has_column("K"));
/// let rows = p.select_rows(msi::Select::table("T").inner_join(msi::Select::table("U"), msi::Expr::col("T.K").eq(msi::Expr::col("U.K")))).unwrap();
/// let _ = rows.len();
/// for name in p.streams() { let _ = name; }
/// let mut buf = Vec::new(); p.read_stream("s").unwrap().read_to_end(&mut buf).unwrap();
/// let _medium: RO = p.into_inner().unwrap();
/// let m2 = RO(Cursor::new(Vec::new())); drop(msi::Package::open(m2).unwrap());
/// ```
pub struct ReadOnlySessionCompiles;

/// `create` must not exist for a `Read + Seek` medium.
/// ```compile_fail,E0277
/// # use std::io::{self, Cursor, Read, Seek, SeekFrom};
/// # #[allow(dead_code)] struct RO(Cursor<Vec<u8>>);
/// # impl Read for RO { fn read(&mut self, b: &mut [u8]) -> io::Result<usize> { self.0.read(b) } }
/// # impl Seek for RO { fn seek(&mut self, f: SeekFrom) -> io::Result<u64> { self.0.seek(f) } }
/// let m = RO(Cursor::new(Vec::new()));
/// let _ = msi::Package::create(msi::PackageType::Installer, m);
/// ```
/// Twin: the same code with a `Read + Write + Seek` medium compiles.
/// ```no_run
/// # use std::io::Cursor;
/// let m = Cursor::new(Vec::new());
/// let _ = msi::Package::create(msi::PackageType::Installer, m);
/// ```
pub struct Witness_create;

/// `summary_info_mut` must not exist for a `Read + Seek` medium.
/// ```compile_fail,E0599
/// # use std::io::{self, Cursor, Read, Seek, SeekFrom};
/// # #[allow(dead_code)] struct RO(Cursor<Vec<u8>>);
/// # impl Read for RO { fn read(&mut self, b: &mut [u8]) -> io::Result<usize> { self.0.read(b) } }
/// # impl Seek for RO { fn seek(&mut self, f: SeekFrom) -> io::Result<u64> { self.0.seek(f) } }
/// let m = RO(Cursor::new(Vec::new()));
/// let mut p = msi::Package::open(m).unwrap(); p.summary_info_mut().set_author("x");
/// ```
/// Twin: the same code with a `Read + Write + Seek` medium compiles.
/// ```no_run
/// # use std::io::Cursor;
/// let m = Cursor::new(Vec::new());
/// let mut p = msi::Package::open(m).unwrap(); p.summary_info_mut().set_author("x");
/// ```
pub struct Witness_summary_info_mut;

/// `set_database_codepage` must not exist for a `Read + Seek` medium.
/// ```compile_fail,E0599
/// # use std::io::{self, Cursor, Read, Seek, SeekFrom};
/// # #[allow(dead_code)] struct RO(Cursor<Vec<u8>>);
/// # impl Read for RO { fn read(&mut self, b: &mut [u8]) -> io::Result<usize> { self.0.read(b) } }
/// # impl Seek for RO { fn seek(&mut self, f: SeekFrom) -> io::Result<u64> { self.0.seek(f) } }
/// let m = RO(Cursor::new(Vec::new()));
/// let mut p = msi::Package::open(m).unwrap(); p.set_database_codepage(msi::CodePage::Utf8);
/// ```
/// Twin: the same code with a `Read + Write + Seek` medium compiles.
/// ```no_run
/// # use std::io::Cursor;
/// let m = Cursor::new(Vec::new());
/// let mut p = msi::Package::open(m).unwrap(); p.set_database_codepage(msi::CodePage::Utf8);
/// ```
pub struct Witness_set_database_codepage;

/// `create_table` must not exist for a `Read + Seek` medium.
/// ```compile_fail,E0599
/// # use std::io::{self, Cursor, Read, Seek, SeekFrom};
/// # #[allow(dead_code)] struct RO(Cursor<Vec<u8>>);
/// # impl Read for RO { fn read(&mut self, b: &mut [u8]) -> io::Result<usize> { self.0.read(b) } }
/// # impl Seek for RO { fn seek(&mut self, f: SeekFrom) -> io::Result<u64> { self.0.seek(f) } }
/// let m = RO(Cursor::new(Vec::new()));
/// let mut p = msi::Package::open(m).unwrap(); let _ = p.create_table("T", vec![msi::Column::build("K").primary_key().int16()]);
/// ```
/// Twin: the same code with a `Read + Write + Seek` medium compiles.
/// ```no_run
/// # use std::io::Cursor;
/// let m = Cursor::new(Vec::new());
/// let mut p = msi::Package::open(m).unwrap(); let _ = p.create_table("T", vec![msi::Column::build("K").primary_key().int16()]);
/// ```
pub struct Witness_create_table;

/// `drop_table` must not exist for a `Read + Seek` medium.
/// ```compile_fail,E0599
/// # use std::io::{self, Cursor, Read, Seek, SeekFrom};
/// # #[allow(dead_code)] struct RO(Cursor<Vec<u8>>);
/// # impl Read for RO { fn read(&mut self, b: &mut [u8]) -> io::Result<usize> { self.0.read(b) } }
/// # impl Seek for RO { fn seek(&mut self, f: SeekFrom) -> io::Result<u64> { self.0.seek(f) } }
/// let m = RO(Cursor::new(Vec::new()));
/// let mut p = msi::Package::open(m).unwrap(); let _ = p.drop_table("T");
/// ```
/// Twin: the same code with a `Read + Write + Seek` medium compiles.
/// ```no_run
/// # use std::io::Cursor;
/// let m = Cursor::new(Vec::new());
/// let mut p = msi::Package::open(m).unwrap(); let _ = p.drop_table("T");
/// ```
pub struct Witness_drop_table;

/// `delete_rows` must not exist for a `Read + Seek` medium.
/// ```compile_fail,E0599
/// # use std::io::{self, Cursor, Read, Seek, SeekFrom};
/// # #[allow(dead_code)] struct RO(Cursor<Vec<u8>>);
/// # impl Read for RO { fn read(&mut self, b: &mut [u8]) -> io::Result<usize> { self.0.read(b) } }
/// # impl Seek for RO { fn seek(&mut self, f: SeekFrom) -> io::Result<u64> { self.0.seek(f) } }
/// let m = RO(Cursor::new(Vec::new()));
/// let mut p = msi::Package::open(m).unwrap(); let _ = p.delete_rows(msi::Delete::from("T"));
/// ```
/// Twin: the same code with a `Read + Write + Seek` medium compiles.
/// ```no_run
/// # use std::io::Cursor;
/// let m = Cursor::new(Vec::new());
/// let mut p = msi::Package::open(m).unwrap(); let _ = p.delete_rows(msi::Delete::from("T"));
/// ```
pub struct Witness_delete_rows;

/// `insert_rows` must not exist for a `Read + Seek` medium.
/// ```compile_fail,E0599
/// # use std::io::{self, Cursor, Read, Seek, SeekFrom};
/// # #[allow(dead_code)] struct RO(Cursor<Vec<u8>>);
/// # impl Read for RO { fn read(&mut self, b: &mut [u8]) -> io::Result<usize> { self.0.read(b) } }
/// # impl Seek for RO { fn seek(&mut self, f: SeekFrom) -> io::Result<u64> { self.0.seek(f) } }
/// let m = RO(Cursor::new(Vec::new()));
/// let mut p = msi::Package::open(m).unwrap(); let _ = p.insert_rows(msi::Insert::into("T"));
/// ```
/// Twin: the same code with a `Read + Write + Seek` medium compiles.
/// ```no_run
/// # use std::io::Cursor;
/// let m = Cursor::new(Vec::new());
/// let mut p = msi::Package::open(m).unwrap(); let _ = p.insert_rows(msi::Insert::into("T"));
/// ```
pub struct Witness_insert_rows;

/// `update_rows` must not exist for a `Read + Seek` medium.
/// ```compile_fail,E0599
/// # use std::io::{self, Cursor, Read, Seek, SeekFrom};
/// # #[allow(dead_code)] struct RO(Cursor<Vec<u8>>);
/// # impl Read for RO { fn read(&mut self, b: &mut [u8]) -> io::Result<usize> { self.0.read(b) } }
/// # impl Seek for RO { fn seek(&mut self, f: SeekFrom) -> io::Result<u64> { self.0.seek(f) } }
/// let m = RO(Cursor::new(Vec::new()));
/// let mut p = msi::Package::open(m).unwrap(); let _ = p.update_rows(msi::Update::table("T"));
/// ```
/// Twin: the same code with a `Read + Write + Seek` medium compiles.
/// ```no_run
/// # use std::io::Cursor;
/// let m = Cursor::new(Vec::new());
/// let mut p = msi::Package::open(m).unwrap(); let _ = p.update_rows(msi::Update::table("T"));
/// ```
pub struct Witness_update_rows;

/// `write_stream` must not exist for a `Read + Seek` medium.
/// ```compile_fail,E0599
/// # use std::io::{self, Cursor, Read, Seek, SeekFrom};
/// # #[allow(dead_code)] struct RO(Cursor<Vec<u8>>);
/// # impl Read for RO { fn read(&mut self, b: &mut [u8]) -> io::Result<usize> { self.0.read(b) } }
/// # impl Seek for RO { fn seek(&mut self, f: SeekFrom) -> io::Result<u64> { self.0.seek(f) } }
/// let m = RO(Cursor::new(Vec::new()));
/// let mut p = msi::Package::open(m).unwrap(); let _ = p.write_stream("s");
/// ```
/// Twin: the same code with a `Read + Write + Seek` medium compiles.
/// ```no_run
/// # use std::io::Cursor;
/// let m = Cursor::new(Vec::new());
/// let mut p = msi::Package::open(m).unwrap(); let _ = p.write_stream("s");
/// ```
pub struct Witness_write_stream;

/// `remove_stream` must not exist for a `Read + Seek` medium.
/// ```compile_fail,E0599
/// # use std::io::{self, Cursor, Read, Seek, SeekFrom};
/// # #[allow(dead_code)] struct RO(Cursor<Vec<u8>>);
/// # impl Read for RO { fn read(&mut self, b: &mut [u8]) -> io::Result<usize> { self.0.read(b) } }
/// # impl Seek for RO { fn seek(&mut self, f: SeekFrom) -> io::Result<u64> { self.0.seek(f) } }
/// let m = RO(Cursor::new(Vec::new()));
/// let mut p = msi::Package::open(m).unwrap(); let _ = p.remove_stream("s");
/// ```
/// Twin: the same code with a `Read + Write + Seek` medium compiles.
/// ```no_run
/// # use std::io::Cursor;
/// let m = Cursor::new(Vec::new());
/// let mut p = msi::Package::open(m).unwrap(); let _ = p.remove_stream("s");
/// ```
pub struct Witness_remove_stream;

/// `remove_digital_signature` must not exist for a `Read + Seek` medium.
/// ```compile_fail,E0599
/// # use std::io::{self, Cursor, Read, Seek, SeekFrom};
/// # #[allow(dead_code)] struct RO(Cursor<Vec<u8>>);
/// # impl Read for RO { fn read(&mut self, b: &mut [u8]) -> io::Result<usize> { self.0.read(b) } }
/// # impl Seek for RO { fn seek(&mut self, f: SeekFrom) -> io::Result<u64> { self.0.seek(f) } }
/// let m = RO(Cursor::new(Vec::new()));
/// let mut p = msi::Package::open(m).unwrap(); let _ = p.remove_digital_signature();
/// ```
/// Twin: the same code with a `Read + Write + Seek` medium compiles.
/// ```no_run
/// # use std::io::Cursor;
/// let m = Cursor::new(Vec::new());
/// let mut p = msi::Package::open(m).unwrap(); let _ = p.remove_digital_signature();
/// ```
pub struct Witness_remove_digital_signature;

/// `flush` must not exist for a `Read + Seek` medium.
/// ```compile_fail,E0599
/// # use std::io::{self, Cursor, Read, Seek, SeekFrom};
/// # #[allow(dead_code)] struct RO(Cursor<Vec<u8>>);
/// # impl Read for RO { fn read(&mut self, b: &mut [u8]) -> io::Result<usize> { self.0.read(b) } }
/// # impl Seek for RO { fn seek(&mut self, f: SeekFrom) -> io::Result<u64> { self.0.seek(f) } }
/// let m = RO(Cursor::new(Vec::new()));
/// let mut p = msi::Package::open(m).unwrap(); let _ = p.flush();
/// ```
/// Twin: the same code with a `Read + Write + Seek` medium compiles.
/// ```no_run
/// # use std::io::Cursor;
/// let m = Cursor::new(Vec::new());
/// let mut p = msi::Package::open(m).unwrap(); let _ = p.flush();
/// ```
pub struct Witness_flush;
