#!/bin/bash
# bn.sh make            : (re)create scratch trees /tmp/bn/<name>/repo for every /verif/benign/*.diff
# bn.sh run <name> Cxx..: run checks on one tree
# bn.sh all [Cxx..]     : run checks (default all) on every tree, print non-silent ones
export VERIF_CACHE_MAX=160
ALL="C01 C02 C03 C04 C05 C06 C07 C08 C09 C10 C11 C12 C13 C14 C15 C16 C17 C18 C19 C20"
case "$1" in
make)
  mkdir -p /tmp/bn
  for d in /verif/benign/*.diff /verif/benign/small/*.diff; do n=$(basename $d .diff); [ -d /tmp/bn/$n ] && continue; mkdir -p /tmp/bn/$n; rsync -a --exclude target --exclude .git /repo/ /tmp/bn/$n/repo/; (cd /tmp/bn/$n/repo && patch -p1 -s -f --no-backup-if-mismatch -i $d) || echo "APPLY FAIL $n"; done;;
run)
  n=$2; shift 2
  for p in "$@"; do VERIF_REPO=/tmp/bn/$n/repo VERIF_EVIDENCE_DIR=/tmp/bn/$n/ev /verif/check $p 2>&1 | grep -E "^  rule=|^C[0-9]+:|Traceback|Error" | cut -c1-${W:-300}; done;;
all)
  shift; ps="${@:-$ALL}"
  for t in /tmp/bn/*/; do n=$(basename $t); for p in $ps; do out=$(VERIF_REPO=/tmp/bn/$n/repo VERIF_EVIDENCE_DIR=/tmp/bn/$n/ev /verif/check $p 2>&1); rc=$?; if [ $rc -ne 0 ]; then echo "== $n $p rc=$rc"; echo "$out" | grep -E "^  rule=|Traceback|Error" | cut -c1-${W:-220}; fi; done; done;;
esac
