#!/usr/bin/env python3
"""appends/refreshes, in each check's level text in MANIFEST.json, the list of rules the last run executed (from the evidence files)"""
import json, re
m = json.load(open("/verif/MANIFEST.json"))
for c in m["checks"]:
    p = c["property_id"]
    ev = json.load(open("/verif/evidence/%s.json" % p))["coverage"]
    rules = [r for r in sorted(ev["per_rule"]) if r not in ("ENGINE-CANARY", "SEEDED", "BENIGN")]
    t = re.sub(r"\s*Rules run on the current tree: .*$", "", c["level_claimed"]["text"])
    c["level_claimed"]["text"] = t + " Rules run on the current tree: " + ", ".join(rules) + "."
json.dump(m, open("/verif/MANIFEST.json", "w"), indent=1)
print("ok")
